"""C01 -- parsing is total: every source text yields a program or a syntax error.

L1 chars : source text = concrete prefix + n symbolic characters (any Unicode scalar) + concrete
           suffix, through the real parse_script (Lexer.scan + parse).
L2 tokens: token streams whose kinds are symbolic over the whole token alphabet, through the
           real parse(): all streams of <= k tokens, and edit windows (delete d, insert w
           symbolic tokens, truncations) at every position of every seed program.
Outcome discipline: a node or CklSyntaxError carrying a message and a SourcePos; anything
else (host exception, budget exhaustion confirmed by the pristine run) is a violation."""
import ckl.parser as P
from ckl.errors import CklSyntaxError
from ckl.lexer import Lexer, SourcePos, Token

import ckl.values as V
from harness import tokens as T
from harness.common import guard, raise_site, b_or

FUNCTIONS = ["ckl.lexer.Lexer.scan", "ckl.lexer.Lexer.(next|peek|match*|peekn)", "ckl.parser.* (all parse functions)",
             "ckl.nodes.*.__init__", "ckl.values.Value*.__init__ (literal construction)"]
OUTSIDE = ["texts longer than prefix+n symbolic characters", "token windows wider than the bound",
           "pattern literal bodies are concrete (re.compile is C code): pool of regex fragments",
           "numerals longer than CPython's int <-> str digit limit other than the pool members", "nesting deeper than the seeds"]
REACH = {"node", "syntax-error"}
# thorough tier: `//a` + 3 symbolic characters can close a pattern literal around one free character, which meets
# re.compile (C code): those few paths are not explored symbolically, their witness is run concretely instead
TOLERATE_UNSUPPORTED = 40
DIVERGE_LABEL = "C01:non-termination"
PATH_SECONDS = 10
ORACLE_TIMEOUT = 5
MAX_DECISIONS = 4000

PREFIXES = ["", "a \"(\"", "f '['", "(a) '->'", "x \"!>\"", "a 'b'", "return", "return;", "do return; end", "fn() return;", "def f() do return; end", "\"\\x", "'\\x", "\"\\", "0x", "0b", "0x1", "0b1", "1.", "1_", "1", "//a", "//",
            "a.", "..", "<", "<<", ">>", "!", "-", "/", "#", "def ", "f(", "a ", "'", "\"", "0"]
PATTERN_POOL = ["//a{99999999999999999999}//", "//(?i)(?-i)a//", "//" + "(" * 120 + ")" * 120 + "//", "//a{1,99999999999}//",
                "//[//", "//(//", "//*//", "//\\//", "//(?P<//", "//a{2,1}//", "//a//", "//[a-z]+//",
                "//)//", "//+//", "//?//", "//a**//", "//(?<x)//", "//[z-a]//", "//\\1//",
                # incompatible inline flags (ValueError in re.compile); literals beyond the host's int <-> str limit
                "//(?a)(?u)x//", "//(?L)x//", "//(?a)(?L)x//", "9" * 4301, "0x" + "f" * 3700, "0b" + "1" * 14500,
                "1_" + "0" * 4300, "9" * 4300 + ".5"]


def bounds(tier):
    q = tier == "quick"
    return {"symbolic_chars_after_prefix": 2 if q else 3, "symbolic_chars_alone": 3 if q else 4,
            "token_streams": 2 if q else 3, "window_insert": 1 if q else 2, "window_delete": [0, 1],
            "seeds": len(T.SEEDS), "alphabet": len(T.alphabet())}


def char_classes():
    """partition of the code points by the first character (parallelism only)"""
    special = sorted(set("#+-*%()[],;/<>=!\"'0123456789 \t\r\n._xbtnr\\abcdefABCDEF"))
    return special


def cells(tier, seed):
    b = bounds(tier)
    out = []
    firsts = char_classes()
    for n in range(1, b["symbolic_chars_alone"] + 1):
        if n <= 2:
            out.append({"k": "chars", "prefix": "", "n": n, "suffix": "", "first": None})
        else:
            for f in firsts:
                out.append({"k": "chars", "prefix": "", "n": n, "suffix": "", "first": f})
            out.append({"k": "chars", "prefix": "", "n": n, "suffix": "", "first": "other"})
    for p in PREFIXES[1:]:
        for n in range(0, b["symbolic_chars_after_prefix"] + 1):
            for suf in ("", "\"", "'") if p[0] in "\"'" else ("",):
                out.append({"k": "chars", "prefix": p, "n": n, "suffix": suf, "first": None})
    for p in PATTERN_POOL:
        out.append({"k": "chars", "prefix": p, "n": 0, "suffix": "", "first": None})
        out.append({"k": "chars", "prefix": "x matches " + p, "n": 0, "suffix": "", "first": None})
    for n in range(1, b["token_streams"] + 1):
        if n <= 1:
            out.append({"k": "tokens", "n": n, "first": None})
        else:
            for i in range(len(T.alphabet())):
                out.append({"k": "tokens", "n": n, "first": i})
    for si, s in enumerate(T.SEEDS):
        ntok = len(T.seed_tokens(s))
        for pos in range(ntok + 1):
            for d in (0, 1):
                if pos + d > ntok:
                    continue
                for w in range(0, b["window_insert"] + 1):
                    if d == 0 and w == 0:
                        continue
                    out.append({"k": "window", "seed": si, "pos": pos, "d": d, "w": w, "trunc": False})
            for w in range(0, b["window_insert"] + 1):
                out.append({"k": "window", "seed": si, "pos": pos, "d": 0, "w": w, "trunc": True})
    # every node kind inside the positions whose syntax-error message renders the parsed node
    for si in range(len(T.SEEDS)):
        for wi in range(len(WRAPPERS)):
            out.append({"k": "wrap", "seed": si, "w": wi})
    return out


WRAPPERS = ["[(%s)] = 1", "[(%s) for q in qs] = 1", "[1 for q in (%s)] = 1", "[q for q in qs if (%s)] = 1",
            "[%s] = 1", "[a, %s] = l", "[<<(%s)>>] = 1", "[<<<(%s) => 1>>>] = 1", "[(fn(a) %s)] = 1",
            "[(if %s then 1)] = 1", "[do %s end] = 1", "[(%s)[0]] = 1", "[(%s)->m] = 1", "[f(%s)] = 1"]


def classify(ctx, out, key):
    if out.kind == "ok":
        ctx.reach("node")
        ctx.check(out.value is not None and hasattr(out.value, "evaluate"), key + ":parse-result-is-not-a-program",
                  lambda: repr(out.value))
        return ["node"]
    if out.kind == "syn":
        ctx.reach("syntax-error")
        e = out.exc
        ok = isinstance(e.pos, SourcePos) and e.msg is not None
        ctx.check(ok, key + ":syntax-error-without-position", lambda: str(e.msg))
        return ["syn", e.msg]
    if out.kind == "rt":
        ctx.fail(key + ":runtime-error-from-parser", lambda: str(out.exc))
        return ["rt"]
    ctx.fail("%s:host-exception:%s@%s" % (key, out.hostname(), raise_site(out.exc)),
             lambda: str(out.exc)[:200])
    return ["host", out.hostname()]


def spelling(tok):
    if tok.type == "string":
        return repr(V.ValueString(tok.value))
    return tok.value


def parse_tokens(ctx, lexer):
    """symbolic mode: the real parse() on the token objects.  Replay mode: the witness is
    rendered to text and goes through the public parse_script (lexer included)."""
    if ctx.symbolic:
        return guard(P.parse, lexer)
    text = " ".join(spelling(t) for t in lexer.tokens)
    ctx.note("text", text)
    return guard(P.parse_script, text, "t")


def run(ctx, cell):
    k = cell["k"]
    if k == "chars":
        n = cell["n"]
        s = ctx.str("c", n)
        if cell["first"] is not None and n:
            if cell["first"] == "other":
                for f in char_classes():
                    ctx.assume(s[0] != f)
            else:
                ctx.assume(s[0] == cell["first"])
        text = cell["prefix"] + s + cell["suffix"] if n else cell["prefix"] + cell["suffix"]
        out = guard(P.parse_script, text, "t")
        return classify(ctx, out, "C01:chars")
    if k == "tokens":
        lexer = Lexer("", "t").scan()
        n = cell["n"]
        for i in range(n):
            tok, kk = T.sym_token(ctx, "k%d" % i, SourcePos("t", 1, i + 1))
            if i == 0 and cell["first"] is not None:
                ctx.assume(kk == T.alphabet()[cell["first"]][2])
            lexer.tokens.append(tok)
        out = parse_tokens(ctx, lexer)
        return classify(ctx, out, "C01:tokens")
    if k == "window":
        seed = T.SEEDS[cell["seed"]]
        toks = list(T.seed_tokens(seed))
        pos, d, w = cell["pos"], cell["d"], cell["w"]
        win = []
        for i in range(w):
            tok, kk = T.sym_token(ctx, "w%d" % i, SourcePos("t", 1, 100 + i))
            win.append(tok)
        new = toks[:pos] + win + ([] if cell["trunc"] else toks[pos + d:])
        lexer = Lexer("", "t").scan()
        lexer.tokens = new
        out = parse_tokens(ctx, lexer)
        return classify(ctx, out, "C01:window")
    if k == "wrap":
        text = WRAPPERS[cell["w"]] % T.SEEDS[cell["seed"]]
        # one symbolic token spelling in front keeps the cell a query over texts rather than a single run
        s = ctx.str("c", 1)
        ctx.assume(b_or(s[0] == " ", s[0] == "\n"))
        out = guard(P.parse_script, s + text, "t")
        return classify(ctx, out, "C01:wrap")
    raise AssertionError(k)
