"""C02 -- operators evaluate per the language definition; integer arithmetic is exact.

prec  : `u1 a op1 u2 b op2 u3 c` (and parenthesised variants) for every ordered pair of binary
        operators and every unary placement; the operand *values* are symbolic (unbounded-range
        ints within a stated magnitude, symbolic booleans, NULL) -- the real parser parses the
        text, the real evaluator runs it, and the result is compared for all operand values with
        a reference evaluator written from the property's precedence table.
exact : the add/sub/mul/div/mod natives called with unbounded symbolic ints; obligations are the
        defining equations of exact arithmetic (division truncating toward zero, remainder law).
ispred: `x is not P` versus `not (x is P)` for every identifier of the token alphabet as P and
        a pool of values of every kind as x."""
import ckl.values as V
from ckl.values import Args

from harness import tokens as T
from harness.common import run_ckl, vint, vstr, vbool, vdec, vlist, vset, vmap, interp, guard, \
    raise_site, b_and
from symex.shims import sym_isinstance

FUNCTIONS = ["ckl.parser.parse_or_expr .. parse_unary_expr, parse_pred_expr", "ckl.nodes.NodeAnd/NodeOr/NodeNot/NodeIn",
             "ckl.functions.FuncAdd/FuncSub/FuncMul/FuncDiv/FuncMod/FuncEquals/FuncLess...",
             "ckl.values.ValueInt/ValueDecimal/ValueBoolean/ValueNull"]
OUTSIDE = ["precedence cells containing / or %: divisors-to-be (b, c, d) range over {-2, 0, 3} only",
           "mixed-kind precedence cells: ints in [-9, 9]", "decimal arithmetic values (host floats): only kind and NULL propagation are checked",
           "cross-kind comparisons (unspecified by the property)", "expression depth above 3 operators",
           "operand magnitude above 10^6 in the precedence cells (unbounded in the exactness cells)"]
REACH = {"value", "error", "exact", "ispred"}

BINOPS = ["+", "-", "*", "/", "%", "==", "!=", "<>", "<", "<=", ">", ">=", "and", "or"]
UNARY = ["", "-", "not "]
LEVEL = {"or": 1, "and": 2, "==": 4, "!=": 4, "<>": 4, "<": 4, "<=": 4, ">": 4, ">=": 4,
         "+": 5, "-": 5, "*": 6, "/": 6, "%": 6}
CMP = ("==", "!=", "<>", "<", "<=", ">", ">=")
KINDS3 = [("int", "int", "int"), ("bool", "bool", "bool"), ("int", "bool", "int"),
          ("null", "int", "int"), ("bool", "int", "bool")]
R = 10 ** 6


def bounds(tier):
    return {"operators": len(BINOPS), "unary_patterns": 7, "kind_tuples": len(KINDS3),
            "operand_range": "[-10^6, 10^6]", "exact": "unbounded ints",
            "depth": 2 if tier == "quick" else 3}


def upatterns():
    pats = [("", "", "")]
    for i in range(3):
        for u in UNARY[1:]:
            p = ["", "", ""]
            p[i] = u
            pats.append(tuple(p))
    return pats


def cells(tier, seed):
    out = []
    for o1 in BINOPS:
        for o2 in BINOPS:
            for kinds in KINDS3:
                out.append({"k": "prec", "ops": [o1, o2], "kinds": list(kinds)})
    if tier != "quick":
        import random
        r = random.Random(seed)
        for o1 in BINOPS:
            for o2 in BINOPS:
                for o3 in BINOPS:
                    out.append({"k": "prec", "ops": [o1, o2, o3], "kinds": ["int"] * 4})
    stateful = list(CMP) + ["and", "or"]
    for o1 in BINOPS:
        for o2 in BINOPS:
            if o1 in stateful and o2 in stateful or (tier != "quick"):
                out.append({"k": "reeval", "ops": [o1, o2]})
    for op in ("add", "sub", "mul", "div", "mod"):
        out.append({"k": "exact", "op": op, "via": "native"})
        out.append({"k": "exact", "op": op, "via": "program"})
        out.append({"k": "exact", "op": op, "via": "compound"})
    out.append({"k": "witness"})
    for op in ("add", "sub", "mul", "div", "mod"):
        for ka in ("int", "dec", "decint", "null"):
            for kb in ("int", "dec", "decint", "null"):
                if (ka, kb) != ("int", "int"):
                    out.append({"k": "kinds", "op": op, "ka": ka, "kb": kb})
    # comparisons and comparison chains over int / decimal operands (1 versus 1.0, 2 versus 2.5)
    for o1 in CMP:
        for kinds in (("int", "dec"), ("dec", "int"), ("dec", "dec"), ("decint", "int"), ("int", "decint")):
            out.append({"k": "cmpkinds", "ops": [o1], "kinds": list(kinds)})
        for o2 in CMP:
            for kinds in (("int", "int", "dec"), ("int", "dec", "int"), ("dec", "int", "int")):
                out.append({"k": "cmpkinds", "ops": [o1, o2], "kinds": list(kinds)})
    # membership: `x in c` is TRUE exactly when c holds an element equal to x (operands of every scalar kind)
    for form in MEMBER_FORMS:
        for ck in ("list", "set", "mapkeys", "string"):
            out.append({"k": "member", "form": form, "ck": ck})
    words = sorted(set(a[1] for a in T.alphabet() if a[0] == "identifier")
                   | {"date with hour", "numerical min_len 2", "numerical exact_len 2",
                      "alphanumerical max_len 3", "in [1, 'abc']", "in 'xabcx'"})
    # ... and every predicate word the real parser knows (read off its source)
    import inspect
    import re as _re
    import ckl.parser as _P
    known = set(_re.findall(r'matchIf\(\s*"([A-Za-z_]+)"\s*,\s*"identifier"', inspect.getsource(_P.parse_pred_expr)))
    words = sorted(set(words) | known)
    for w in words:
        out.append({"k": "ispred", "word": w})
    return out


# ---- reference evaluator -------------------------------------------------------------------
class Err(Exception):
    pass


class Unspec(Exception):
    pass


def mod_convention():
    a = run_ckl("[-7 % 2, 7 % -2]")
    if a.kind == "ok":
        s = str(a.value)
        if s == "[1, -1]":
            return "floor"
        if s == "[-1, 1]":
            return "trunc"
    return None


_MODCONV = []


def tdiv(a, b):
    q = a // b
    if q < 0 and q * b != a:
        q = q + 1
    return q


def arith(op, x, y):
    kx, ky = x[0], y[0]
    if kx == "null" or ky == "null":
        return ("null",)
    if kx != "int" or ky != "int":
        raise Unspec()
    a, b = x[1], y[1]
    if op == "+":
        return ("int", a + b)
    if op == "-":
        return ("int", a - b)
    if op == "*":
        return ("int", a * b)
    if b == 0:
        raise Err()
    if op == "/":
        return ("int", tdiv(a, b))
    if not _MODCONV:
        _MODCONV.append(mod_convention())
    if _MODCONV[0] == "floor":
        return ("int", a % b)
    if _MODCONV[0] == "trunc":
        return ("int", a - b * tdiv(a, b))
    raise Unspec()


def compare(op, x, y):
    if x[0] != y[0] or x[0] == "null":
        if op == "==" and x[0] != y[0]:
            return ("bool", False)
        if op in ("!=", "<>") and x[0] != y[0]:
            return ("bool", True)
        raise Unspec()
    if x[0] == "bool" and op not in ("==", "!=", "<>"):
        raise Unspec()
    a, b = x[1], y[1]
    r = {"==": a == b, "!=": a != b, "<>": a != b, "<": None, "<=": None, ">": None, ">=": None}[op]
    if r is None:
        r = {"<": lambda: a < b, "<=": lambda: a <= b, ">": lambda: a > b, ">=": lambda: a >= b}[op]()
    return ("bool", True if r else False)


def ref_eval(node, env):
    t = node[0]
    if t == "var":
        return env[node[1]]
    if t == "neg":
        v = ref_eval(node[1], env)
        if v[0] == "null":
            return ("null",)
        if v[0] != "int":
            raise Unspec()
        return ("int", -v[1])
    if t == "not":
        v = ref_eval(node[1], env)
        if v[0] != "bool":
            raise Err()
        return ("bool", not v[1])
    if t in ("and", "or"):
        for sub in node[1]:
            v = ref_eval(sub, env)
            if v[0] != "bool":
                raise Err()
            if t == "and" and not v[1]:
                return ("bool", False)
            if t == "or" and v[1]:
                return ("bool", True)
        return ("bool", t == "and")
    if t == "chain":
        # conjunction of adjacent pairs, left to right, short-circuiting like `and`
        operands, ops = node[1], node[2]
        vals = [ref_eval(operands[0], env)]
        for i, op in enumerate(ops):
            vals.append(ref_eval(operands[i + 1], env))
            r = compare(op, vals[i], vals[i + 1])
            if not r[1]:
                return ("bool", False)
        return ("bool", True)
    if t == "bin":
        return arith(node[1], ref_eval(node[2], env), ref_eval(node[3], env))
    raise AssertionError(t)


def ref_parse(items):
    """items: alternating operand descriptors (unary, name) and binary operator spellings.
    precedence: or < and < not < comparison < additive < multiplicative < unary; left assoc."""
    pos = [0]

    def peek():
        return items[pos[0]] if pos[0] < len(items) else None

    def p_or():
        subs = [p_and()]
        while peek() == "or":
            pos[0] += 1
            subs.append(p_and())
        return subs[0] if len(subs) == 1 else ("or", subs)

    def p_and():
        subs = [p_not()]
        while peek() == "and":
            pos[0] += 1
            subs.append(p_not())
        return subs[0] if len(subs) == 1 else ("and", subs)

    def p_not():
        it = peek()
        if isinstance(it, tuple) and it[0] == "not ":
            # `not` binds looser than comparison: it applies to the whole comparison
            items[pos[0]] = ("", it[1])
            return ("not", p_not())
        return p_rel()

    def p_rel():
        operands = [p_add()]
        ops = []
        while peek() in CMP:
            ops.append(peek())
            pos[0] += 1
            operands.append(p_add())
        return operands[0] if not ops else ("chain", operands, ops)

    def p_add():
        left = p_mul()
        while peek() in ("+", "-"):
            op = peek()
            pos[0] += 1
            left = ("bin", op, left, p_mul())
        return left

    def p_mul():
        left = p_unary()
        while peek() in ("*", "/", "%"):
            op = peek()
            pos[0] += 1
            left = ("bin", op, left, p_unary())
        return left

    def p_unary():
        it = peek()
        pos[0] += 1
        if it[0] == "-":
            return ("neg", ("var", it[1]))
        if it[0] == "not ":
            raise SyntaxError("not in operand position")
        return ("var", it[1])

    tree = p_or()
    if pos[0] != len(items):
        raise SyntaxError("trailing")
    return tree


DIVISORS = (-2, 0, 3)


def mkval(ctx, kind, name, rng=R, divisor=False):
    if kind == "int":
        if divisor:
            v = DIVISORS[ctx.choice(name, len(DIVISORS))]
        else:
            v = ctx.int(name, -rng, rng)
        return ("int", v), vint(v)
    if kind == "bool":
        b = ctx.bool(name)
        return ("bool", b), vbool(b)
    if kind == "null":
        return ("null",), V.NULL
    raise AssertionError(kind)


def compare_outcome(ctx, key, out, ref, detail):
    """ref: ('val', v) | ('err',) | ('unspec',)"""
    if out.kind == "host":
        ctx.fail("%s:host-exception:%s@%s" % (key, out.hostname(), raise_site(out.exc)), detail)
        return
    if ref[0] == "unspec":
        return
    if ref[0] == "err":
        ctx.reach("error")
        ctx.check(out.kind == "rt", key + ":missing-runtime-error", detail)
        return
    ctx.reach("value")
    if not ctx.check(out.kind == "ok", key + ":unexpected-" + out.kind, detail):
        return
    v = ref[1]
    got = out.value
    if v[0] == "null":
        ctx.check(got.isNull(), key + ":not-null", detail)
    elif v[0] == "bool":
        if ctx.check(got.isBoolean(), key + ":not-boolean", detail):
            ctx.check(got.value == v[1], key + ":wrong-boolean", detail)
    else:
        if ctx.check(got.isInt() and sym_isinstance(got.value, int), key + ":not-an-exact-int", detail):
            ctx.check(got.value == v[1], key + ":wrong-int", detail)


def run(ctx, cell):
    k = cell["k"]
    if k == "prec":
        return run_prec(ctx, cell)
    if k == "reeval":
        return run_reeval(ctx, cell)
    if k == "witness":
        # concrete operands beyond 2^53 / 2^63 (solver-chosen index): if the arithmetic goes through
        # host floats the symbolic cells degrade to `Unsupported`; these witnesses still show it
        ctx.reach("exact")
        ws = [(2 ** 53 + 1, 1), (3307544270151327924, -1), (10 ** 30 + 1, 7), (-(2 ** 63) - 1, 3), (2 ** 64 + 1, 2 ** 32),
              (9007199254740993, 9007199254740993), (-(10 ** 25), 10 ** 12 + 1), (2 ** 100, -3)]
        a, b = ws[ctx.choice("w", len(ws))]
        op = "+-*/%"[ctx.choice("op", 5)]
        out = run_ckl("[a %s b, do def x = a; x %s= b; x end]" % (op, op), {"a": vint(a), "b": vint(b)})
        detail = {"a": a, "b": b, "op": op, "got": ctx.plain(out)}
        if out.kind != "ok":
            ctx.fail("C02:witness:%s" % out.kind, detail)
            return out
        q = abs(a) // abs(b)
        q = -q if (a < 0) != (b < 0) else q
        exp = {"+": a + b, "-": a - b, "*": a * b, "/": q}.get(op)
        for r in out.value.value:
            ok = r.isInt() and isinstance(r.value, int)
            if ctx.check(ok, "C02:witness:result-not-an-exact-int", detail):
                if op == "%":
                    ctx.check(abs(r.value) < abs(b) and (a - r.value) % b == 0, "C02:witness:remainder-law", detail)
                else:
                    ctx.check(r.value == exp, "C02:witness:inexact-beyond-2^53", detail)
        return out
    if k == "exact":
        return run_exact(ctx, cell)
    if k == "kinds":
        return run_kinds(ctx, cell)
    if k == "cmpkinds":
        return run_cmpkinds(ctx, cell)
    if k == "member":
        return run_member(ctx, cell)
    if k == "ispred":
        return run_ispred(ctx, cell)
    raise AssertionError(k)


def run_prec(ctx, cell):
    ops, kinds = cell["ops"], cell["kinds"]
    names = ["a", "b", "c", "d"][:len(kinds)]
    env_ref, env = {}, {}
    mixed = len(set(kinds)) > 1
    hasdiv = any(o in ("/", "%") for o in ops)
    for n, kd in zip(names, kinds):
        # operands that can end up as divisors are drawn from a small concrete set (forked):
        # division by a symbolic divisor is non-linear and is the subject of the exact cells
        env_ref[n], env[n] = mkval(ctx, kd, n, 9 if mixed else R, hasdiv and n != "a")
    pats = upatterns() if len(kinds) == 3 else [("",) * len(kinds)]
    pi = ctx.choice("upat", len(pats)) if len(pats) > 1 else 0
    us = pats[pi]
    shapes = ["flat", "left", "right"] if len(ops) == 2 else ["flat"]
    si = ctx.choice("shape", len(shapes)) if len(shapes) > 1 else 0
    shape = shapes[si]
    parts = []
    items = []
    for i, n in enumerate(names):
        parts.append(us[i] + n)
        items.append((us[i], n))
        if i < len(ops):
            parts.append(ops[i])
            items.append(ops[i])
    if shape == "flat":
        text = " ".join(parts)
        try:
            tree = ref_parse(list(items))
        except SyntaxError:
            tree = None
    elif shape == "left":
        text = "(%s %s %s) %s %s" % tuple(parts)
        try:
            tree = ref_parse([("", "L"), ops[1], items[4]])
            sub = ref_parse(list(items[:3]))
        except SyntaxError:
            tree = sub = None
    else:
        text = "%s %s (%s %s %s)" % tuple(parts)
        try:
            tree = ref_parse([items[0], ops[0], ("", "R")])
            sub = ref_parse(list(items[2:]))
        except SyntaxError:
            tree = sub = None
    out = run_ckl(text, dict(env))
    key = "C02:prec:%s" % " ".join(ops)
    detail = lambda: {"text": text, "operands": {n: ctx.plain(env[n]) for n in names},
                      "got": ctx.plain(out)}
    if tree is None or (shape != "flat" and sub is None):
        # `not` directly after a binary operator other than and/or: the grammar of the property
        # puts `not` above comparison, so e.g. `a + not b` is not an expression
        return out      # no claim: the property's grammar does not generate this text
    if out.kind == "syn":
        ctx.fail(key + ":syntax-error-on-grammatical-expression", detail)
        return out
    try:
        if shape != "flat":
            class Lazy(dict):
                pass
            e2 = dict(env_ref)
            subval = ("thunk", sub)
            # evaluate with the parenthesised group as a variable bound lazily (short circuit!)
            ref = ("val", ref_eval_lazy(tree, e2, "L" if shape == "left" else "R", sub))
        else:
            ref = ("val", ref_eval(tree, env_ref))
    except Err:
        ref = ("err",)
    except Unspec:
        ref = ("unspec",)
    compare_outcome(ctx, key, out, ref, detail)
    return out


def run_reeval(ctx, cell):
    """the same parsed expression (a function body / a loop body) evaluated twice with independent
    operand values: each evaluation must be right on its own (no state kept in the tree)"""
    ops = cell["ops"]
    key = "C02:reeval:%s" % " ".join(ops)
    hasdiv = any(o in ("/", "%") for o in ops)
    kinds = ("int", "int", "int") if ctx.choice("kinds", 2) == 0 else ("bool", "bool", "bool")
    envs, refs = [], []
    for r in range(2):
        er, e = {}, {}
        for n, kd in zip("abc", kinds):
            er[n], e[n] = mkval(ctx, kd, "%s%d" % (n, r), 50, hasdiv and n != "a")
        envs.append(e)
        refs.append(er)
    items = [("", "a"), ops[0], ("", "b"), ops[1], ("", "c")]
    try:
        tree = ref_parse(list(items))
    except SyntaxError:
        return ["no claim"]
    text = ("def f(a, b, c) a %s b %s c; def r1 = do f(a0, b0, c0) catch all 'E' end; "
            "def r2 = do f(a1, b1, c1) catch all 'E' end; [r1, r2, r1, r2]" % (ops[0], ops[1]))
    env = {}
    for r in range(2):
        for n in "abc":
            env["%s%d" % (n, r)] = envs[r][n]
    out = run_ckl(text, env)
    detail = lambda: {"text": text, "values": {k_: ctx.plain(v) for k_, v in env.items()}, "got": ctx.plain(out)}
    if out.kind != "ok":
        if out.kind == "host":
            ctx.fail("%s:host-exception:%s" % (key, out.hostname()), detail)
        return out
    res = out.value.value
    for r in range(2):
        try:
            ref = ("val", ref_eval(tree, refs[r]))
        except Err:
            ref = ("err",)
        except Unspec:
            continue
        for got in (res[r], res[2 + r]):
            if ref[0] == "err":
                ctx.check(got == vstr("E"), key + ":evaluation-%d-missing-error" % r, detail)
            else:
                v = ref[1]
                if v[0] == "null":
                    ctx.check(got.isNull(), key + ":evaluation-%d-wrong" % r, detail)
                elif v[0] == "bool":
                    if ctx.check(got.isBoolean(), key + ":evaluation-%d-wrong" % r, detail):
                        ctx.check(got.value == v[1], key + ":evaluation-%d-wrong" % r, detail)
                else:
                    if ctx.check(got.isInt(), key + ":evaluation-%d-wrong" % r, detail):
                        ctx.check(got.value == v[1], key + ":evaluation-%d-wrong" % r, detail)
    return out


def ref_eval_lazy(tree, env, name, sub):
    class E(dict):
        def __getitem__(self, k):
            if k == name:
                return ref_eval(sub, env)
            return dict.__getitem__(self, k)
    e = E(env)
    return ref_eval(tree, e)


def run_exact(ctx, cell):
    ctx.reach("exact")
    op, via = cell["op"], cell["via"]
    sym = {"add": "+", "sub": "-", "mul": "*", "div": "/", "mod": "%"}[op]
    key = "C02:exact:%s:%s" % (op, via)
    if via == "native":
        a, b = ctx.int("a"), ctx.int("b")        # unbounded
        it = interp()
        fn = it.environment.get(op)
        args = Args(None).addArg("a", vint(a)).addArg("b", vint(b))
        out = guard(fn.execute, args, it.environment, None)
    else:
        a, b = ctx.int("a", -10 ** 12, 10 ** 12), ctx.int("b", -10 ** 12, 10 ** 12)
        if via == "program":
            out = run_ckl("a %s b" % sym, {"a": vint(a), "b": vint(b)})
        else:
            out = run_ckl("def x = a; x %s= b; x" % sym, {"a": vint(a), "b": vint(b)})
    detail = lambda: {"a": int(a), "b": int(b), "got": ctx.plain(out)}
    if out.kind == "host":
        ctx.fail("%s:host-exception:%s" % (key, out.hostname()), detail)
        return out
    if op in ("div", "mod") and b == 0:
        ctx.check(out.kind == "rt", key + ":zero-divisor-not-a-runtime-error", detail)
        return out
    if not ctx.check(out.kind == "ok", key + ":unexpected-" + out.kind, detail):
        return out
    r = out.value
    if not ctx.check(r.isInt() and sym_isinstance(r.value, int), key + ":result-not-an-exact-int", detail):
        return out
    q = r.value
    if op == "add":
        ctx.check(q == a + b, key + ":inexact", detail)
    elif op == "sub":
        ctx.check(q == a - b, key + ":inexact", detail)
    elif op == "mul":
        ctx.check(q == a * b, key + ":inexact", detail)
    elif op == "div":
        rem = a - q * b
        ctx.check(abs_lt(rem, b), key + ":remainder-not-smaller-than-divisor", detail)
        ctx.check((rem == 0) | ((rem > 0) == (a > 0)), key + ":not-truncating-toward-zero", detail)
    else:
        ctx.check(abs_lt(q, b), key + ":remainder-not-smaller-than-divisor", detail)
        # b divides a - q: witnesses are the floor quotient and the truncated quotient
        k = a // b
        ctx.check(((a - q) == k * b) | ((a - q) == tdiv(a, b) * b),
                  key + ":b-does-not-divide-a-minus-remainder", detail)
    return out


def abs_lt(x, y):
    ax = x if x >= 0 else -x
    ay = y if y >= 0 else -y
    return ax < ay


def run_kinds(ctx, cell):
    ctx.reach("exact")
    op, ka, kb = cell["op"], cell["ka"], cell["kb"]
    sym = {"add": "+", "sub": "-", "mul": "*", "div": "/", "mod": "%"}[op]
    key = "C02:kinds:%s:%s:%s" % (op, ka, kb)

    def mk(kind, name):
        if kind == "int":
            return vint((-3, 0, 7, 2 ** 70)[ctx.choice(name, 4)])
        if kind == "dec":
            # decimal arithmetic is host float arithmetic (outside the claim): concrete values,
            # only the result kind and NULL propagation are checked
            return vdec((2.5, -1.0, 0.0, 1e300)[ctx.choice(name, 4)])
        if kind == "decint":
            # a decimal obtained by converting an int (decimal(3), round(7)): its payload is a host int
            return run_ckl(("decimal(3)", "round(7)", "decimal(0)", "decimal(-2)")[ctx.choice(name, 4)]).value
        return V.NULL
    va, vb = mk(ka, "a"), mk(kb, "b")
    out = run_ckl("a %s b" % sym, {"a": va, "b": vb})
    detail = lambda: {"a": ctx.plain(va), "b": ctx.plain(vb), "got": ctx.plain(out)}
    if out.kind == "host":
        ctx.fail("%s:host-exception:%s" % (key, out.hostname()), detail)
        return out
    if "null" in (ka, kb):
        if ctx.check(out.kind == "ok", key + ":null-operand-gave-" + out.kind, detail):
            ctx.check(out.value.isNull(), key + ":null-not-propagated", detail)
        return out
    if out.kind == "rt":
        return out            # division by zero
    ctx.check(out.value.isDecimal(), key + ":result-kind-not-decimal", detail)
    o2 = run_ckl("def x = a; x %s= b; [type(x), type(a %s b + 1), (a %s b) is not int]" % (sym, sym, sym), {"a": va, "b": vb})
    if o2.kind == "ok":
        ctx.check(str(o2.value) == "['decimal', 'decimal', TRUE]", key + ":result-kind-not-decimal", lambda: str(o2.value))
    return [out.kind, out.value.type()]


MEMBER_FORMS = ["x in c", "x not in c", "x is in c", "x is not in c", "not x in c", "x in c and y in c", "x in c or y == x"]


def run_member(ctx, cell):
    ctx.reach("value")
    form, ck = cell["form"], cell["ck"]
    key = "C02:member:%s:%s" % (form, ck)
    if ck == "string":
        pool = [vstr("a"), vstr("b"), vstr(""), vstr("ab"), vstr("ba")]
        coll = vstr(("ab", "", "bab")[ctx.choice("c", 3)])
        x = pool[ctx.choice("x", len(pool))]
        y = pool[ctx.choice("y", len(pool))] if "y" in form else x
        inn = lambda v: v.value in coll.value
    else:
        pool = [V.NULL, vint(0), vint(1), vdec(1.0), V.TRUE, vstr("a"), vlist([V.NULL])]
        n = ctx.choice("n", 3)
        els = [pool[ctx.choice("e%d" % i, len(pool))] for i in range(n)]
        if ck == "list":
            coll = vlist(els)
        elif ck == "set":
            coll = vset(els)
        else:
            coll = vmap([(e, vint(7)) for e in els])
        x = pool[ctx.choice("x", len(pool))]
        y = pool[ctx.choice("y", len(pool))] if "y" in form else x
        inn = lambda v: any(v == e for e in els)
    ix, iy = inn(x), inn(y)
    exp = {"x in c": ix, "x not in c": not ix, "x is in c": ix, "x is not in c": not ix, "not x in c": not ix,
           "x in c and y in c": ix and iy, "x in c or y == x": ix or (x == y)}[form]
    out = run_ckl(form, {"x": x, "y": y, "c": coll})
    detail = lambda: {"text": form, "x": str(x), "y": str(y), "c": str(coll), "got": ctx.plain(out), "expected": bool(exp)}
    if out.kind != "ok":
        ctx.fail("%s:%s:%s" % (key, out.kind, out.hostname() or "runtime-error"), detail)
        return out
    ctx.check(out.value.isBoolean() and out.value.value == bool(exp), key + ":membership-differs-from-equality-with-an-element", detail)
    return out


def run_cmpkinds(ctx, cell):
    """numeric comparison is by value across int and decimal; a chain is the conjunction of its links"""
    from symex.shims import sym_float
    ctx.reach("value")
    ops, kinds = cell["ops"], cell["kinds"]
    key = "C02:cmpkinds:%s:%s" % (" ".join(ops), "-".join(kinds))
    names = ["a", "b", "c"][:len(kinds)]
    env, twice = {}, {}
    for n, kd in zip(names, kinds):
        if kd == "int":
            x = ctx.int(n, -3, 3)
            env[n], twice[n] = vint(x), 2 * x
        elif kd == "decint":
            i = ctx.choice(n, 3)
            env[n], twice[n] = run_ckl(("decimal(1)", "round(2)", "decimal(-3)")[i]).value, (2, 4, -6)[i]
        elif ctx.choice(n + ".frac", 2):
            i = ctx.choice(n, 3)
            env[n], twice[n] = vdec((2.5, -1.5, 0.5)[i]), (5, -3, 1)[i]
        else:
            x = ctx.int(n, -3, 3)
            env[n], twice[n] = vdec(sym_float(x)), 2 * x
    text = " ".join(x for pair in zip(names, ops + [""]) for x in pair).strip()

    def link(op, x, y):
        return {"==": x == y, "!=": x != y, "<>": x != y, "<": x < y, "<=": x <= y, ">": x > y, ">=": x >= y}[op]
    exp = link(ops[0], twice[names[0]], twice[names[1]])
    if len(ops) == 2:
        exp = b_and(exp, link(ops[1], twice[names[1]], twice[names[2]]))
    fn = {"==": "equals", "!=": "not_equals", "<>": "not_equals", "<": "less", "<=": "less_equals", ">": "greater",
          ">=": "greater_equals"}[ops[0]]
    out = run_ckl("[%s, %s(a, b)]" % (text, fn), dict(env))
    detail = lambda: {"text": text, "operands": {n: ctx.plain(env[n]) for n in names}, "got": ctx.plain(out)}
    if out.kind != "ok":
        ctx.fail("%s:%s:%s" % (key, out.kind, out.hostname() or "runtime-error"), detail)
        return out
    got = out.value.value[0]
    ctx.check(got.isBoolean() and got.value == exp, key + ":comparison-differs-from-numeric-order", detail)
    if len(ops) == 1:
        ctx.check(out.value.value[1].value == exp, key + ":function-form-differs-from-numeric-order", detail)
    return out


POOL = None


def pool():
    global POOL
    if POOL is None:
        it = interp()
        texts = ["NULL", "TRUE", "FALSE", "0", "-3", "7", "2.5", "0.0", "-1.5", "''", "'abc'", "'12'",
                 "'a1'", "'20170101'", "'2017010112'", "'1200'", "' '", "//a//", "date('20200101')",
                 "[]", "[1]", "['abc', 1]", "<<>>", "<<1>>", "<<<>>>", "<<<1 => 2>>>", "<**>",
                 "<*a = 1*>", "fn(x) x", "str_input('x')", "parse('1 + 1')"]
        POOL = []
        for t in texts:
            o = run_ckl(t)
            if o.kind == "ok":
                POOL.append((t, o.value))
    return POOL


def run_ispred(ctx, cell):
    ctx.reach("ispred")
    w = cell["word"]
    key = "C02:ispred:%s" % w.split(" ")[0]
    p = pool()
    i = ctx.choice("x", len(p) + 1)
    if i == len(p):
        xt, xv = "symbolic int", vint(ctx.int("n", -20, 20))
    else:
        xt, xv = p[i]
    o1 = run_ckl("x is %s" % w, {"x": xv})
    o2 = run_ckl("x is not %s" % w, {"x": xv})
    o3 = run_ckl("not (x is %s)" % w, {"x": xv})
    detail = lambda: {"x": xt, "pos": ctx.plain(o1), "isnot": ctx.plain(o2), "notis": ctx.plain(o3)}
    for o in (o1, o2, o3):
        if o.kind == "host":
            # C13's subject; here only the relation between the two forms matters
            return [o1, o2, o3]
    if not ctx.check(o2.kind == o3.kind, key + ":outcome-kind-differs", detail):
        return [o1, o2, o3]
    if o2.kind == "ok":
        if ctx.check(o2.value.isBoolean() and o1.kind == "ok" and o1.value.isBoolean(),
                     key + ":not-boolean", detail):
            ctx.check(o2.value.value == (not o1.value.value), key + ":is-not-is-not-the-negation", detail)
            ctx.check(o2.value == o3.value, key + ":differs-from-not-is", detail)
    elif o2.kind == "rt":
        ctx.check(o2.exc.value == o3.exc.value, key + ":error-value-differs", detail)
    return [o1, o2, o3]
