"""C03 -- names resolve lexically and calls bind arguments as declared.

scope : template programs of nested definitions / closures / counters / shadowing over up to 4
        scope levels, where "this level defines the name", "this level assigns the name" are
        run-time selectors and every stored value is a distinct symbolic int -- a result can only
        equal the oracle if it is the same variable.  Oracle: explicit environment chains
        (def -> current function frame, assign -> nearest enclosing binding or error,
        call -> fresh frame whose parent is the definition frame).
bind  : ckl.values.Args.setArgs against the binding model of the property: parameter list sizes
        and the presence of a rest parameter enumerated, each of up to 4 arguments symbolically
        positional or named with a symbolic name from {p0, p1, p2, unknown}.
calls : call forms through the interpreter (positional, named, defaults referring to earlier
        parameters, rest, ...list, ...map, pipeline, method call with prototype chain) with
        symbolic argument values against the model's result vector."""
import ckl.values as V
from ckl.values import Args
from ckl.errors import CklRuntimeError

from harness.common import run_ckl, vint, vstr, vlist, vmap, guard, raise_site, b_and, b_or, b_not

FUNCTIONS = ["ckl.functions.Environment.put/set/get/isDefined/newEnv", "ckl.nodes.NodeDef/NodeAssign/NodeLambda/NodeFuncall/NodeIdentifier",
             "ckl.functions.FuncLambda.execute", "ckl.values.Args.addArgs/setArgs/getNextPositionalArgName",
             "ckl.nodes.invoke (spread expansion)", "ckl.nodes.NodeDerefInvoke (method call, _proto_)",
             "ckl.parser._invoke (pipeline)"]
OUTSIDE = ["call shapes are enumerated (syntax is concrete)", "map spread with non-string keys",
           "positional argument after a named one and duplicate named arguments (not specified by the property)",
           "more than 4 scope levels"]
REACH = {"scope", "bind", "calls"}


def bounds(tier):
    return {"scope_levels": 4, "params": 3, "args": 3 if tier == "quick" else 4, "call_forms": len(CALLS)}


# ---- scope model ---------------------------------------------------------------------------------
class UndefinedName(Exception):
    pass


class Env:
    def __init__(self, parent=None):
        self.m = {}
        self.parent = parent

    def define(self, k, v):
        self.m[k] = v

    def assign(self, k, v):
        e = self
        while e is not None:
            if k in e.m:
                e.m[k] = v
                return
            e = e.parent
        raise UndefinedName(k)

    def get(self, k):
        e = self
        while e is not None:
            if k in e.m:
                return e.m[k]
            e = e.parent
        raise UndefinedName(k)


def prog_shadow(v):
    """4 levels: global, outer, inner (closure), caller that binds the same name"""
    text = """
def x = g0;
def outer() do
  if d1 == 1 then do def x = g1 end;
  def inner() do
    if d2 == 1 then do def x = g2 end;
    if as2 == 1 then x = a2;
    x
  end;
  if as1 == 1 then x = a1;
  def r = inner();
  [r, x, inner]
end;
def res = outer();
def caller() do def x = g3; def f = res[2]; [f(), x] end;
def c = caller();
[res[0], res[1], c[0], c[1], x]
"""
    G = Env()
    G.define("x", v["g0"])
    E1 = Env(G)
    if v["d1"] == 1:
        E1.define("x", v["g1"])

    def inner():
        E2 = Env(E1)
        if v["d2"] == 1:
            E2.define("x", v["g2"])
        if v["as2"] == 1:
            E2.assign("x", v["a2"])
        return E2.get("x")
    if v["as1"] == 1:
        E1.assign("x", v["a1"])
    r = inner()
    r1 = E1.get("x")
    E3 = Env(G)
    E3.define("x", v["g3"])
    c0 = inner()
    c1 = E3.get("x")
    return text, [r, r1, c0, c1, G.get("x")]


def prog_counter(v):
    text = """
def mk(start) do
  def c = start;
  fn() do c = c + step; c end
end;
def k1 = mk(g0);
def k2 = mk(g1);
def c = g2;
def a = k1(); def b = k1(); def d = k2(); def e = k1();
[a, b, d, e, c]
"""
    s = v["step"]
    return text, [v["g0"] + s, v["g0"] + 2 * s, v["g1"] + s, v["g0"] + 3 * s, v["g2"]]


def prog_curry(v):
    text = """
def plus3(a) fn(b) fn(c) a * 100 + b * 10 + c;
def compose(f, g) fn(x) f(g(x));
def inc(x) x + g0;
def dbl(x) x * 2;
def a = 5; def b = 6; def c = 7; def x = 8;
[plus3(g1)(g2)(g3), compose(inc, dbl)(g1), compose(dbl, inc)(g1), a, x]
"""
    return text, [v["g1"] * 100 + v["g2"] * 10 + v["g3"], v["g1"] * 2 + v["g0"], (v["g1"] + v["g0"]) * 2, 5, 8]


def prog_recursion(v):
    text = """
def n = g3;
def f(n, acc) if n == 0 then acc else f(n - 1, acc + n * g0);
def g(k) do def local = k + g1; if k == 0 then local else g(k - 1) + local end;
[f(3, g2), g(2), n]
"""
    return text, [v["g2"] + 6 * v["g0"], 3 * v["g1"] + 3, v["g3"]]


def prog_assign_capture(v):
    """assignment before and after capture; assignment never creates a binding"""
    text = """
def x = g0;
def get() x;
def before = get();
x = g1;
def after = get();
def setter() do x = g2 end;
setter();
def r = do undefined_y = g3 catch all 'no binding' end;
def t = do def h() do fresh_z = 1 end; h() catch all 'no binding' end;
[before, after, x, get(), r, t]
"""
    return text, [v["g0"], v["g1"], v["g2"], v["g2"], "no binding", "no binding"]


def prog_params(v):
    """every call gets fresh parameter bindings; parameters shadow outer names"""
    text = """
def p = g0;
def f(p) do p = p + 1; p end;
def a = f(g1);
def b = f(g2);
def h(q) do def p = q; fn() p end;
def c1 = h(g3); def c2 = h(g1);
[a, b, p, c1(), c2()]
"""
    return text, [v["g1"] + 1, v["g2"] + 1, v["g0"], v["g3"], v["g1"]]


def prog_late_def(v):
    """the same identifier occurrence resolves further in / out on later evaluations"""
    text = """
def v = g0;
def outer() do
  def get = fn() v;
  def r1 = get();
  if d1 == 1 then do def v = g1 end;
  def r2 = get();
  [r1, r2, get()]
end;
def mk(s) do if s == 1 then do def x = g2 end; fn() x end;
def x = g3;
def fa = mk(d2); def fb = mk(1 - d2);
def res = outer();
def rec(n) do if n == as1 then do def w = a1 end; def r = if n > 0 then rec(n - 1) else []; r + [w] end;
def w = a2;
[res, fa(), fb(), fa(), rec(1), v, x]
"""
    r2 = v["g1"] if v["d1"] == 1 else v["g0"]
    xa = v["g2"] if v["d2"] == 1 else v["g3"]
    xb = v["g3"] if v["d2"] == 1 else v["g2"]
    rec = [v["a1"] if v["as1"] == 0 else v["a2"], v["a1"] if v["as1"] == 1 else v["a2"]]
    return text, [[v["g0"], r2, r2], xa, xb, xa, rec, v["g0"], v["g3"]]


def prog_destructure_assign(v):
    """`[t1, t2] = ...` updates, per target, the nearest enclosing binding -- the targets live at different
    (symbolically chosen) scope levels and are listed in either order; it never creates a binding"""
    text = """
def x = g0; def y = g1;
def outer(y) do
  if d1 == 1 then do def x = g2 end;
  def inner() do
    if d2 == 1 then do def y = g3 end;
    if as2 == 1 then do def x = step end;
    if as1 == 1 then [x, y] = [a1, a2] else [y, x] = [a2, a1];
    [x, y]
  end;
  def r = inner();
  [r, x, y]
end;
def res = outer(step + 10);
def t = do def h(k) do [fresh_q, k] = [1, 2]; k end; h(0) catch all 'no binding' end;
def u = do def h2(k) do [k, fresh_q] = [1, 2]; k end; h2(0) catch all 'no binding' end;
def w = do fresh_q catch all 'undefined' end;
[res, x, y, t, u, w]
"""
    G = Env()
    G.define("x", v["g0"])
    G.define("y", v["g1"])
    E1 = Env(G)
    E1.define("y", v["step"] + 10)
    if v["d1"] == 1:
        E1.define("x", v["g2"])
    E2 = Env(E1)
    if v["d2"] == 1:
        E2.define("y", v["g3"])
    if v["as2"] == 1:
        E2.define("x", v["step"])
    E2.assign("x", v["a1"])
    E2.assign("y", v["a2"])
    r = [E2.get("x"), E2.get("y")]
    # (a failed destructuring assignment may have assigned the targets before the undefined one -- the property
    # only says that no binding is created, so h / h2 only name their own parameter besides the undefined name)
    return text, [[r, E1.get("x"), E1.get("y")], G.get("x"), G.get("y"), "no binding", "no binding", "undefined"]


SCOPE = [prog_late_def, prog_shadow, prog_counter, prog_curry, prog_recursion, prog_assign_capture, prog_params,
         prog_destructure_assign]

# ---- call forms ------------------------------------------------------------------------------------
DEF = "def f(a, b = a + 10, c = 7, rest...) [a, b, c, rest...]; "
# (call text, model: lambda x, y, z -> [a, b, c, rest] or None for error)
CALLS = [
    ("f(x)", lambda x, y, z: [x, x + 10, 7, []]),
    ("f(x, y)", lambda x, y, z: [x, y, 7, []]),
    ("f(x, y, z)", lambda x, y, z: [x, y, z, []]),
    ("f(x, y, z, x, y)", lambda x, y, z: [x, y, z, [x, y]]),
    ("f(c = x, a = y)", lambda x, y, z: [y, y + 10, x, []]),
    ("f(x, c = z)", lambda x, y, z: [x, x + 10, z, []]),
    ("f(b = x, a = y)", lambda x, y, z: [y, x, 7, []]),
    ("f()", lambda x, y, z: None),
    ("f(d = x)", lambda x, y, z: None),
    ("f(...[x, y])", lambda x, y, z: [x, y, 7, []]),
    ("f(...[x, y, z, x])", lambda x, y, z: [x, y, z, [x]]),
    ("f(...[])", lambda x, y, z: None),
    ("f(x, ...[y, z])", lambda x, y, z: [x, y, z, []]),
    ("f(...<<<'a' => x, 'c' => y>>>)", lambda x, y, z: [x, x + 10, y, []]),
    ("f(z, ...<<<'c' => y>>>)", lambda x, y, z: [z, z + 10, y, []]),
    # spreads followed by named arguments (named first, the spread elements fill the remaining parameters in order)
    ("f(...[x], c = z)", lambda x, y, z: [x, x + 10, z, []]),
    ("f(...[x, y], c = z)", lambda x, y, z: [x, y, z, []]),
    ("f(...[x, y, z], b = 1)", lambda x, y, z: [x, 1, y, [z]]),
    ("f(...[], a = x, c = y)", lambda x, y, z: [x, x + 10, y, []]),
    ("f(x, ...[y], c = z)", lambda x, y, z: [x, y, z, []]),
    ("f(...[x], ...[y], c = z)", lambda x, y, z: [x, y, z, []]),
    ("x !> f(...[y], c = z)", lambda x, y, z: [x, y, z, []]),
    ("def o = <*m = fn(self, p, q = 0) [p, q]*>; o->m(...[x], q = y)", lambda x, y, z: [x, y]),
    ("x !> f()", lambda x, y, z: [x, x + 10, 7, []]),
    ("x !> f(y)", lambda x, y, z: [x, y, 7, []]),
    ("x !> f(c = z)", lambda x, y, z: [x, x + 10, z, []]),
    ("def o = <*m = fn(self, p) [self->v, p], v = x*>; o->m(y)", lambda x, y, z: [x, y]),
    ("def base = <*m = fn(self, p) [self->v, p]*>; def o = <*_proto_ = base, v = x*>; o->m(z)",
     lambda x, y, z: [x, z]),
    ("def base = <*m = fn(self) self->v*>; def mid = <*_proto_ = base*>; def o = <*_proto_ = mid, v = y*>; [o->m()]",
     lambda x, y, z: [y]),
    ("def base = <*m = fn(self) 1*>; def o = <*_proto_ = base, m = fn(self) x*>; [o->m()]", lambda x, y, z: [x]),
    ("def g(a, b = a) [a, b]; def a = z; g(x)", lambda x, y, z: [x, x]),
    ("def b = z; def g(a, d = b) [a, d]; def h() do def b = y; g(x) end; h()", lambda x, y, z: [x, z]),
    ("def g(p...) p...; g()", lambda x, y, z: []),
    ("def g(p...) p...; g(x, y)", lambda x, y, z: [x, y]),
    ("def g(a) a; g(x, y)", lambda x, y, z: None),
    # defaults are evaluated at call time: every call gets a fresh value
    ("def g(v, acc = []) do append(acc, v); acc end; g(x); g(y)", lambda x, y, z: [y]),
    ("def g(v, acc = []) do append(acc, v); acc end; def r = g(x); [r, g(y), g(z)]", lambda x, y, z: [[x], [y], [z]]),
    ("def g(v, seen = <<>>) do append(seen, v); list(seen) end; g(x); g(y)", lambda x, y, z: [y]),
    ("def g(k, m = <<<>>>) do put(m, k, 1); length(m) end; [g(x), g(y), g(z)]", lambda x, y, z: [1, 1, 1]),
    ("def g(v, acc = [[]]) do append(acc[0], v); acc[0] end; g(x); g(y)", lambda x, y, z: [y]),
    ("def mk() fn(v, acc = []) do append(acc, v); acc end; def h = mk(); h(x); h(y)", lambda x, y, z: [y]),
    ("def g(v, o = <*n = 0*>) do o->n = o->n + v; o->n end; [g(x), g(y)]", lambda x, y, z: [x, y]),
    ("def c = x; def g(d = c) d; def r1 = g(); c = y; [r1, g()]", lambda x, y, z: [x, y]),
]


def cells(tier, seed):
    out = []
    for i in range(len(SCOPE)):
        out.append({"k": "scope", "i": i})
    b = bounds(tier)
    for np in range(0, b["params"] + 1):
        for rest in (0, 1):
            for na in range(0, b["args"] + 1):
                out.append({"k": "bind", "np": np, "rest": rest, "na": na})
    for i in range(len(CALLS)):
        out.append({"k": "calls", "i": i})
    return out


def to_value(x):
    if isinstance(x, V.Value):
        return x
    if isinstance(x, list):
        return vlist([to_value(i) for i in x])
    if isinstance(x, str):
        return vstr(x)
    return vint(x)


def run(ctx, cell):
    k = cell["k"]
    if k == "scope":
        return run_scope(ctx, cell)
    if k == "bind":
        return run_bind(ctx, cell)
    if k == "calls":
        return run_calls(ctx, cell)
    raise AssertionError(k)


def distinct_ints(ctx, names):
    vals = {}
    for i, n in enumerate(names):
        vals[n] = ctx.int(n, 1000 * (i + 1), 1000 * (i + 1) + 99)     # disjoint ranges: all distinct
    return vals


def run_scope(ctx, cell):
    ctx.reach("scope")
    fn = SCOPE[cell["i"]]
    key = "C03:scope:" + fn.__name__[5:]
    v = distinct_ints(ctx, ["g0", "g1", "g2", "g3", "a1", "a2"])
    for s in ("d1", "d2", "as1", "as2"):
        v[s] = ctx.int(s, 0, 1)
    v["step"] = ctx.int("step", 1, 3)
    env = {n: vint(x) for n, x in v.items()}
    text, exp = fn(v)
    out = run_ckl(text, env)
    detail = lambda: {"program": text, "values": {n: int(x) for n, x in v.items()}, "got": ctx.plain(out),
                      "expected": ctx.plain(to_value(exp))}
    if out.kind != "ok":
        ctx.fail("%s:%s:%s" % (key, out.kind, out.hostname() or "runtime-error"), detail)
        return out
    ctx.check(out.value == to_value(exp), key + ":wrong-variable-observed", detail)
    return out


def run_bind(ctx, cell):
    ctx.reach("bind")
    np, rest, na = cell["np"], cell["rest"], cell["na"]
    key = "C03:bind"
    params = ["p%d" % i for i in range(np)]
    declared = params + (["r..."] if rest else [])
    NAMES = ["", "p0", "p1", "p2", "zz"]          # "" = positional
    names, values = [], []
    for i in range(na):
        j = ctx.choice("n%d" % i, len(NAMES))
        names.append(NAMES[j] or None)
        values.append(vint(ctx.int("v%d" % i, 100 * (i + 1), 100 * (i + 1) + 9)))
    # outside the property: positional after named, duplicate names
    seen_named = False
    for nm in names:
        if nm is None and seen_named:
            return ["unspecified"]
        if nm is not None:
            seen_named = True
    named = [nm for nm in names if nm is not None]
    if len(set(named)) != len(named):
        return ["unspecified"]
    args = Args(None)
    args.addArgs(declared)
    out = guard(args.setArgs, list(names), list(values))
    # model
    err = None
    bound = {}
    for nm, val in zip(names, values):
        if nm is not None:
            if nm not in params:
                err = "unknown"
                break
            bound[nm] = val
    restv = []
    if err is None:
        for nm, val in zip(names, values):
            if nm is None:
                free = [p for p in params if p not in bound]
                if free:
                    bound[free[0]] = val
                elif rest:
                    restv.append(val)
                else:
                    err = "too-many"
                    break
    detail = lambda: {"declared": declared, "names": names, "values": [ctx.plain(x) for x in values],
                      "got": ctx.plain(out), "bound": {k_: ctx.plain(x) for k_, x in args.args.items()}}
    if out.kind == "host":
        ctx.fail("%s:host-exception:%s" % (key, out.hostname()), detail)
        return out
    if err is not None:
        ctx.check(out.kind == "rt", key + ":missing-error-" + err, detail)
        return [out.kind]
    if not ctx.check(out.kind == "ok", key + ":unexpected-error", detail):
        return [out.kind]
    for p in params:
        if p in bound:
            ctx.check(args.hasArg(p) and args.get(p) == bound[p], key + ":parameter-bound-to-wrong-argument", detail)
        else:
            ctx.check(not args.hasArg(p), key + ":parameter-bound-without-argument", detail)
    if rest:
        ctx.check(args.hasArg("r...") and args.get("r...") == vlist(restv), key + ":rest-parameter-wrong", detail)
    return [out.kind, {k_: v_ for k_, v_ in args.args.items()}]


def run_calls(ctx, cell):
    ctx.reach("calls")
    text, model = CALLS[cell["i"]]
    key = "C03:calls:" + text[:30]
    w = 1 if ("<<" in text) else 99          # values that get hashed: two-value domains
    x, y, z = ctx.int("x", 100, 100 + w), ctx.int("y", 200, 200 + w), ctx.int("z", 300, 300 + w)
    out = run_ckl(DEF + text, {"x": vint(x), "y": vint(y), "z": vint(z)})
    exp = model(x, y, z)
    detail = lambda: {"call": text, "x": int(x), "y": int(y), "z": int(z), "got": ctx.plain(out),
                      "expected": ctx.plain(to_value(exp)) if exp is not None else "runtime error"}
    if out.kind == "host":
        ctx.fail("%s:host-exception:%s" % (key, out.hostname()), detail)
        return out
    if exp is None:
        ctx.check(out.kind == "rt", key + ":missing-error", detail)
        return [out.kind]
    if not ctx.check(out.kind == "ok", key + ":unexpected-" + out.kind, detail):
        return [out.kind]
    ctx.check(out.value == to_value(exp), key + ":arguments-bound-wrongly", detail)
    return out
