"""C04 -- conditionals, loops, comprehensions and early exits have structured semantics.

loops : template nests of for / while loops (depth <= 2, thorough 3), inside and outside
        functions, with a fault point at every statement position whose kind (break, continue,
        return, error) is symbolic, symbolic loop bounds and element values; compared with the
        reference interpreter of harness.tdsl (Python loops, break/continue/return).
ifs   : if / elif / else chains with symbolic conditions: exactly the first TRUE branch runs.
iter  : iteration order: lists in order, sets and map keys ascending (symbolic small-domain
        elements), map values / entries / destructured pairs in key order, strings by character.
compr : every comprehension form (single, for..for product, also-for parallel, with if; list,
        set, map results; list/set/map keys/values/entries/string iterables) must yield the
        same elements as the explicit loop, both run by the real interpreter on the same
        symbolic collection."""
import ckl.values as V

from harness import tdsl
from harness.common import run_ckl, vint, vstr, vlist, vset, vmap, raise_site, b_or, b_and

FUNCTIONS = ["ckl.nodes.NodeIf/NodeFor/NodeWhile/NodeBlock/NodeBreak/NodeContinue/NodeReturn",
             "ckl.nodes.NodeListComprehension*/NodeSetComprehension*/NodeMapComprehension", "ckl.nodes.getCollectionValue",
             "ckl.functions.FuncLambda.execute", "ckl.interpreter.Interpreter.interpret"]
OUTSIDE = ["loop nests deeper than the bound", "loop bounds above 3", "bare `for x in map` (not in the property's list)",
           "parallel comprehensions over collections of different length"]
REACH = {"loops", "ifs", "iter", "compr"}


class Gen:
    def __init__(self):
        self.pos = 0
        self.tag = 0

    def exit(self):
        self.pos += 1
        return ("exit", self.pos)

    def log(self):
        self.tag += 1
        return ("log", self.tag)

    def lit(self):
        self.tag += 1
        return ("lit", self.tag)

    def t(self):
        self.tag += 1
        return self.tag


def shapes(tier):
    out = []

    def add(name, build):
        g = Gen()
        out.append((name, build(g), g))

    add("for", lambda g: [("for", "i", "items", [("logvar", "i"), g.exit(), g.log()]), g.log(), g.lit()])
    add("while", lambda g: [("while", "w", "n", [("logvar", "w"), g.exit(), g.log()]), g.log(), g.lit()])
    add("for-for", lambda g: [("for", "i", "items", [("logvar", "i"), g.exit(),
                               ("for", "j", "items2", [("logvar", "j"), g.exit(), g.log()]), g.exit(), g.log()]),
                              g.lit()])
    add("while-for", lambda g: [("while", "w", "n", [("logvar", "w"),
                                 ("for", "j", "items2", [("logvar", "j"), g.exit(), g.log()]), g.exit(), g.log()]),
                                g.lit()])
    add("for-in-function", lambda g: [("fun", "f", [("for", "i", "items", [("logvar", "i"), g.exit(), g.log()]),
                                                    g.log(), g.lit()]),
                                      ("call", "f", g.t()), g.log(), g.lit()])
    add("function-in-loop", lambda g: [("fun", "f", [g.log(), g.exit(), g.lit()]),
                                       ("for", "i", "items", [("logvar", "i"), ("call", "f", g.t()), g.exit(), g.log()]),
                                       g.lit()])
    # a return travels out through a finally part that calls a function with its own early return
    add("return-through-finally-call", lambda g: [
        ("fun", "h", [g.log(), g.exit(), g.lit()]),
        ("fun", "f", [("for", "i", "items", [("logvar", "i"),
                                             ("block", [g.exit(), g.log()], [], [("call", "h", g.t()), g.log()]),
                                             g.log()]), g.lit()]),
        ("call", "f", g.t()), g.lit()])
    # loops over the characters of a string, with every exit kind
    add("forstr", lambda g: [("for", "ch", "chars", [("logvar", "ch"), g.exit(), g.log()]), g.log(), g.lit()])
    add("forstr-in-function", lambda g: [("fun", "f", [("for", "ch", "chars", [("logvar", "ch"), g.exit(), g.log()]),
                                                       g.log(), g.lit()]),
                                         ("call", "f", g.t()), g.log(), g.lit()])
    add("for-forstr", lambda g: [("fun", "f", [("for", "i", "items", [("logvar", "i"),
                                   ("for", "ch", "chars", [("logvar", "ch"), g.exit(), g.log()]), g.exit(), g.log()]), g.lit()]),
                                 ("call", "f", g.t()), g.lit()])
    add("forset", lambda g: [("forset", "i", "sitems", [("logvar", "i"), g.exit(), g.log()]), g.lit()])
    for what in ("keys", "values", "entries"):
        add("formap-" + what, lambda g, what=what: [
            ("formap", "i", what, "mitems", [("logvar", "i"), g.exit(), g.log()]), g.log(), g.lit()])
    add("for-formap", lambda g: [("for", "i", "items", [("logvar", "i"),
                                   ("formap", "j", "keys", "mitems", [("logvar", "j"), g.exit(), g.log()]), g.exit(), g.log()]),
                                  g.lit()])
    add("formap-in-function", lambda g: [("fun", "f", [("formap", "j", "values", "mitems", [("logvar", "j"), g.exit(), g.log()]),
                                                       g.log(), g.lit()]),
                                         ("call", "f", g.t()), g.lit()])
    add("if-in-loop", lambda g: [("for", "i", "items", [
        ("if", [("c1", 1, [g.log(), g.exit(), g.lit()]), ("c2", 1, [g.log(), g.lit()])], [g.log(), g.exit(), g.lit()]),
        g.log()]), g.lit()])
    add("if-chain", lambda g: [("if", [("c1", 1, [g.log(), g.lit()]), ("c2", 1, [g.log(), g.lit()]),
                                       ("c1", 0, [g.log(), g.lit()])], [g.log(), g.lit()])])
    add("if-noelse", lambda g: [("if", [("c1", 1, [g.log(), g.lit()]), ("c2", 2, [g.log(), g.lit()])], None), g.log(), g.lit()])
    if tier != "quick":
        add("for-for-for", lambda g: [("for", "i", "items", [("for", "j", "items2", [("logvar", "j"), g.exit(),
                                       ("while", "w", "n", [("logvar", "w"), g.exit(), g.log()]), g.exit()]), g.exit(), g.log()]),
                                      g.lit()])
        add("fn-loop-fn-loop", lambda g: [("fun", "f", [("for", "j", "items2", [("logvar", "j"), g.exit()]), g.lit()]),
                                          ("fun", "h", [("for", "i", "items", [("call", "f", g.t()), g.exit(), g.log()]), g.lit()]),
                                          ("call", "h", g.t()), g.lit()])
    return out


ITER = [
    ("list", "for x in c do append(r, x) end"),
    ("set", "for x in c do append(r, x) end"),
    ("mapkeys", "for x in keys c do append(r, x) end"),
    ("mapvalues", "for x in values c do append(r, x) end"),
    ("mapentries", "for x in entries c do append(r, x) end"),
    ("mappairs", "for [k, v] in entries c do append(r, [v, k]) end"),
    ("string", "for x in c do append(r, x) end"),
    # a loop visits the collection's CURRENT elements: loop, change, loop again
    ("set-seq", "for x in c do append(r, x) end; remove(c, y); append(r, 'mid'); for x in c do append(r, x) end; "
                "append(c, z); append(r, 'end'); for x in c do append(r, x) end; append(r, [x for x in c])"),
    ("map-seq", "for x in keys c do append(r, x) end; remove(c, y); append(r, 'mid'); for x in keys c do append(r, x) end; "
                "c[z] = 9; append(r, 'end'); for x in keys c do append(r, x) end; append(r, [x for x in keys c])"),
]

# (name, collection kinds, comprehension, explicit loop)   both leave their result in `r`
COMPR = [
    ("list", "list set string", "[x for x in c]", "def r = []; for x in c do append(r, x) end; r"),
    ("list-if", "list set", "[x * 2 for x in c if x > t]", "def r = []; for x in c do if x > t then append(r, x * 2) end; r"),
    ("list-keys", "map", "[x for x in keys c]", "def r = []; for x in keys c do append(r, x) end; r"),
    ("list-values", "map", "[x for x in values c]", "def r = []; for x in values c do append(r, x) end; r"),
    ("list-entries", "map", "[x for x in entries c]", "def r = []; for x in entries c do append(r, x) end; r"),
    ("list-values-if", "map", "[x for x in values c if x > t]", "def r = []; for x in values c do if x > t then append(r, x) end; r"),
    ("product", "list set", "[[x, y] for x in c for y in d]", "def r = []; for x in c do for y in d do append(r, [x, y]) end end; r"),
    ("product-if", "list", "[x + y for x in c for y in d if x < y]",
     "def r = []; for x in c do for y in d do if x < y then append(r, x + y) end end; r"),
    ("product-values-second", "map", "[[x, y] for x in keys c for y in values c]",
     "def r = []; for x in keys c do for y in values c do append(r, [x, y]) end end; r"),
    ("product-entries-second", "map", "[[x, y[1]] for x in values c for y in entries c]",
     "def r = []; for x in values c do for y in entries c do append(r, [x, y[1]]) end end; r"),
    ("product-keys-second", "map", "[x + y for x in values c for y in keys c if x > y]",
     "def r = []; for x in values c do for y in keys c do if x > y then append(r, x + y) end end; r"),
    ("product-list-values", "map", "[[x, y] for x in [1, 2, 3] for y in values c]",
     "def r = []; for x in [1, 2, 3] do for y in values c do append(r, [x, y]) end end; r"),
    ("set-product-values", "map", "<<[x, y] for x in keys c for y in values c>>",
     "def r = <<>>; for x in keys c do for y in values c do append(r, [x, y]) end end; r"),
    ("parallel-values", "map", "[[x, y] for x in keys c also for y in values c]",
     "def r = []; def ks = [k for k in keys c]; def vs = [v for v in values c]; "
     "for i in range(length(ks)) do append(r, [ks[i], vs[i]]) end; r"),
    ("parallel-entries", "map", "[[x, y[0]] for x in values c also for y in entries c]",
     "def r = []; def vs = [v for v in values c]; def es = [e for e in entries c]; "
     "for i in range(length(vs)) do append(r, [vs[i], es[i][0]]) end; r"),
    ("set-parallel-keys", "map", "<<x + y for x in keys c also for y in values c>>",
     "def r = <<>>; def ks = [k for k in keys c]; def vs = [v for v in values c]; "
     "for i in range(length(ks)) do append(r, ks[i] + vs[i]) end; r"),
    ("product-string", "string", "[x + y for x in c for y in c]",
     "def r = []; for x in c do for y in c do append(r, x + y) end end; r"),
    ("product-set-second", "set", "[[x, y] for x in [7, 8] for y in c]",
     "def r = []; for x in [7, 8] do for y in c do append(r, [x, y]) end end; r"),
    ("parallel", "list", "[[x, y] for x in c also for y in c2]",
     "def r = []; for i in range(length(c)) do append(r, [c[i], c2[i]]) end; r"),
    ("set", "list set", "<<x % 2 for x in c>>", "def r = <<>>; for x in c do append(r, x % 2) end; r"),
    ("set-if", "list", "<<x for x in c if x > t>>", "def r = <<>>; for x in c do if x > t then append(r, x) end; r"),
    ("set-values", "map", "<<x for x in values c>>", "def r = <<>>; for x in values c do append(r, x) end; r"),
    ("set-product", "list", "<<x + y for x in c for y in d>>", "def r = <<>>; for x in c do for y in d do append(r, x + y) end end; r"),
    ("map", "list set", "<<<x => x * 2 for x in c>>>", "def r = <<<>>>; for x in c do put(r, x, x * 2) end; r"),
    ("map-if", "list", "<<<x => 1 for x in c if x > t>>>", "def r = <<<>>>; for x in c do if x > t then put(r, x, 1) end; r"),
    ("map-entries", "map", "<<<e[1] => e[0] for e in entries c>>>", "def r = <<<>>>; for e in entries c do put(r, e[1], e[0]) end; r"),
]


# `return` without a value leaves the innermost function with NULL
BARE_RETURN = [("def f() do return; end; f()", "NULL"), ("def f() do if c == 1 then return; 5 end; f()", None),
               ("def f() do for i in [1, 2] do if i == c then return; end; 7 end; f()", None), ("return;", "NULL"),
               ("def f() return; [f()]", "[NULL]"), ("def g() do def h() do return; end; h(); 3 end; g()", "3")]


def bounds(tier):
    return {"depth": 2 if tier == "quick" else 3, "loop_bound": 3, "collection_size": 3,
            "shapes": len(shapes(tier)), "comprehension_forms": len(COMPR)}


def cells(tier, seed):
    out = []
    for i, (name, prog, g) in enumerate(shapes(tier)):
        for p in range(0, g.pos + 1):
            out.append({"k": "loops", "shape": i, "name": name, "sel": p})
    for i in range(len(ITER)):
        out.append({"k": "iter", "i": i})
    for i in range(len(BARE_RETURN)):
        out.append({"k": "bare", "i": i})
    for i, c in enumerate(COMPR):
        for ck in c[1].split():
            out.append({"k": "compr", "i": i, "ck": ck})
    return out


def small(ctx, name, n, lo=0, hi=3):
    return [ctx.int("%s%d" % (name, i), lo, hi) for i in range(n)]


def run(ctx, cell):
    k = cell["k"]
    if k == "loops":
        return run_loops(ctx, cell)
    if k == "iter":
        return run_iter(ctx, cell)
    if k == "compr":
        return run_compr(ctx, cell)
    if k == "bare":
        ctx.reach("loops")
        text, exp = BARE_RETURN[cell["i"]]
        c = ctx.int("c", 0, 3)
        out = run_ckl(text, {"c": vint(c)})
        if exp is None:
            exp = "NULL" if ((c == 1) if "c == 1" in text else ((c == 1) | (c == 2))) else ("5" if "5 end" in text else "7")
        detail = lambda: {"program": text, "c": int(c), "got": ctx.plain(out), "expected": exp}
        if out.kind != "ok":
            ctx.fail("C04:bare-return:%s" % out.kind, detail)
            return out
        ctx.check(str(out.value) == exp, "C04:bare-return:wrong-value", detail)
        return out
    raise AssertionError(k)


def run_loops(ctx, cell):
    name, prog, g = shapes("thorough")[cell["shape"]]
    key = "C04:" + name
    ctx.reach("ifs" if name.startswith("if") else "loops")
    sel = cell["sel"]
    sel2 = ctx.int("sel2", 0, g.pos)
    kind = ctx.int("kind", 3, 5) if ctx.choice("kerr", 2) == 0 else ctx.int("kind", 0, 0)
    kind2 = ctx.int("kind2", 3, 5)
    n_items = ctx.choice("ni", 3)
    items = [vint(ctx.int("it%d" % i)) for i in range(n_items)]
    items2 = [vint(10), vint(20)]
    sitems = [vint(x) for x in small(ctx, "s", 2)]
    n = ctx.int("n", 0, 3)
    c1, c2 = ctx.int("c1", 0, 1), ctx.int("c2", 0, 2)
    rv, ev = vint(ctx.int("rv", 50, 51)), vint(ctx.int("ev", 7, 8))
    rv2 = vint(60)
    nch = ctx.choice("nch", 3) if "forstr" in name else 2
    chars = [vstr(c) for c in "xy"[:nch]]
    mkeys = [1, 2, 3][:1 + ctx.choice("nm", 3)]
    mpairs = [(vint(k_), vint(ctx.int("mv%d" % k_, 70, 79))) for k_ in reversed(mkeys)]
    vals = {"sel": sel, "sel2": sel2, "kind": kind, "kind2": kind2, "ev": ev, "ev2": ev, "rv": rv, "rv2": rv2,
            "items": items, "items2": items2, "sitems": sitems, "n": n, "c1": c1, "c2": c2, "mitems": mpairs,
            "chars": chars}
    env = {"sel": vint(sel), "sel2": vint(sel2), "kind": vint(kind), "kind2": vint(kind2), "ev": ev, "ev2": ev,
           "rv": rv, "rv2": rv2, "items": vlist(items), "items2": vlist(items2), "sitems": vset(sitems), "n": vint(n),
           "c1": vint(c1), "c2": vint(c2), "log": vlist([]), "mitems": vmap(mpairs), "chars": vstr("xy"[:nch])}
    text = tdsl.render(prog)
    out = run_ckl(text, env)
    detail = lambda: {"program": text, "values": {k_: ctx.plain(v) for k_, v in env.items() if k_ != "log"},
                      "got": ctx.plain(out), "log": ctx.plain(env["log"])}
    if out.kind in ("host", "syn"):
        ctx.fail("%s:%s:%s" % (key, out.kind, out.hostname() or "syntax-error"), detail)
        return out

    def mk(x):
        if isinstance(x, list):
            return vlist(x)
        if isinstance(x, V.Value):
            return x
        return vint(x)
    ref = tdsl.Ref(dict(vals), mk=mk, error=vstr("ERROR"))
    status, rval = ref.toplevel(prog)
    explog = vlist(ref.log)
    d2 = lambda: dict(detail(), expected=[status, ctx.plain(rval), ctx.plain(explog)])
    if status == "ok":
        if ctx.check(out.kind == "ok", key + ":error-where-none-expected", d2):
            if rval is not None:
                ctx.check(out.value == rval, key + ":wrong-result", d2)
    else:
        if ctx.check(out.kind == "rt", key + ":expected-error-missing", d2):
            ctx.check(out.exc.value == rval, key + ":wrong-error-value", d2)
    ctx.check(env["log"] == explog, key + ":visited-iterations-differ", d2)
    return [out, env["log"]]


def mkcoll(ctx, ck, name, n=None, hashed=False):
    """a collection with symbolic elements; hashed: its values end up in a set / as map keys, so
    they are concretised -- keep their domain tiny"""
    if n is None:
        n = ctx.choice(name + ".n", 3 if hashed else 4)
    lo, hi = (0, 1) if hashed else (-3, 3)
    if ck == "list":
        xs = [ctx.int("%s%d" % (name, i), lo, hi) for i in range(n)]
        return vlist([vint(x) for x in xs])
    if ck == "set":
        xs = small(ctx, name, n)
        return vset([vint(x) for x in xs])
    if ck == "map":
        ks = small(ctx, name + "k", n)
        vs = [ctx.int("%sv%d" % (name, i), lo, hi) for i in range(n)]
        return vmap([(vint(a), vint(b)) for a, b in zip(ks, vs)])
    if ck == "string":
        return vstr(ctx.str(name, n, 97, 100))
    raise AssertionError(ck)


def run_iter(ctx, cell):
    ctx.reach("iter")
    name, text = ITER[cell["i"]]
    key = "C04:iter:" + name
    n = ctx.choice("n", 4)
    if name == "list":
        xs = [ctx.int("x%d" % i) for i in range(n)]
        coll = vlist([vint(x) for x in xs])
        exp = [vint(x) for x in xs]
    elif name == "set":
        xs = small(ctx, "x", n)
        coll = vset([vint(x) for x in xs])
        exp = [vint(x) for x in tdsl.sorted_distinct(xs)]
    elif name in ("set-seq", "map-seq"):
        if n == 3:
            return ["skip"]
        n = n + 1
        xs = [int(x) for x in small(ctx, "x", n)]
        y = xs[ctx.choice("y", n)]
        z = int(small(ctx, "z", 1)[0])
        coll = vset([vint(x) for x in xs]) if name == "set-seq" else vmap([(vint(x), vint(1)) for x in xs])
        s1 = sorted(set(xs))
        s2 = sorted(set(xs) - {y})
        s3 = sorted(set(s2) | {z})
        exp = ([vint(x) for x in s1] + [vstr("mid")] + [vint(x) for x in s2] + [vstr("end")] + [vint(x) for x in s3]
               + [vlist([vint(x) for x in s3])])
        out = run_ckl("def r = []; %s; r" % text, {"c": coll, "y": vint(y), "z": vint(z)})
        detail = lambda: {"elements": xs, "removed": y, "added": z, "got": ctx.plain(out), "expected": ctx.plain(vlist(exp))}
        if out.kind != "ok":
            ctx.fail("%s:%s:%s" % (key, out.kind, out.hostname() or "runtime-error"), detail)
            return out
        ctx.check(out.value == vlist(exp), key + ":wrong-visiting-order", detail)
        return out
    elif name == "string":
        s = ctx.str("s", n)
        coll = vstr(s)
        exp = [vstr(ch) for ch in list(s)]
    else:
        ks = small(ctx, "k", n)
        vs = [ctx.int("v%d" % i) for i in range(n)]
        pairs = {}
        order = []
        for a, b in zip(ks, vs):
            a = int(a)                     # keys are hashed: concrete per path
            if a not in pairs:
                order.append(a)
            pairs[a] = b
        coll = vmap([(vint(a), vint(b)) for a, b in zip(ks, vs)])
        sk = sorted(pairs)
        if name == "mapkeys":
            exp = [vint(a) for a in sk]
        elif name == "mapvalues":
            exp = [vint(pairs[a]) for a in sk]
        elif name == "mapentries":
            exp = [vlist([vint(a), vint(pairs[a])]) for a in sk]
        else:
            exp = [vlist([vint(pairs[a]), vint(a)]) for a in sk]
    out = run_ckl("def r = []; %s; r" % text, {"c": coll})
    detail = lambda: {"collection": ctx.plain(coll), "got": ctx.plain(out), "expected": ctx.plain(vlist(exp))}
    if out.kind != "ok":
        ctx.fail("%s:%s:%s" % (key, out.kind, out.hostname() or "runtime-error"), detail)
        return out
    ctx.check(out.value == vlist(exp), key + ":wrong-visiting-order", detail)
    return out


def run_compr(ctx, cell):
    ctx.reach("compr")
    name, kinds, comp, loop = COMPR[cell["i"]]
    ck = cell["ck"]
    key = "C04:compr:%s:%s" % (name, ck)
    hashed = comp.startswith("<<")
    c = mkcoll(ctx, ck, "c", hashed=hashed)
    env = {"c": c, "t": vint(ctx.int("t", -1, 1))}
    if " d" in comp or "in d" in comp:
        env["d"] = mkcoll(ctx, ck, "d", 2, hashed=hashed)
    if "c2" in comp:
        n = len(c.value)
        env["c2"] = vlist([vint(ctx.int("z%d" % i, 5, 6)) for i in range(n)])
    o1 = run_ckl(comp, dict(env))
    o2 = run_ckl(loop, dict(env))
    detail = lambda: {"comprehension": comp, "loop": loop, "env": {k_: ctx.plain(v) for k_, v in env.items()},
                      "comprehension_result": ctx.plain(o1), "loop_result": ctx.plain(o2)}
    if o1.kind == "host" or o2.kind == "host":
        ctx.fail(key + ":host-exception", detail)
        return [o1, o2]
    if not ctx.check(o1.kind == o2.kind, key + ":outcome-kind-differs", detail):
        return [o1, o2]
    if o1.kind == "ok":
        ctx.check(o1.value == o2.value, key + ":differs-from-explicit-loop", detail)
        ctx.check(o1.value.type() == o2.value.type(), key + ":result-kind-differs", detail)
    return [o1, o2]
