"""C05 -- errors reach the nearest matching handler and finally runs exactly once.

Templates of do / catch v / catch all / finally nests (depth <= 2, thorough 3) at top level,
inside functions and inside loops, with a fault point between all statements (also inside
handlers and finally parts).  Symbolic: which fault point fires first (sel) and second (sel2),
the kind of each exit (error value / undefined name / division by zero / return / break /
continue), the error values, the catch values and the return value.  The program text is parsed
and run by the real interpreter; result / escaping error value and the in-program event log are
compared for all values with the reference interpreter of harness.tdsl (Python exceptions and
try/finally written from the property statement)."""
import ckl.values as V

from harness import tdsl
from harness.common import run_ckl, vint, vstr, vlist, raise_site, b_or

FUNCTIONS = ["ckl.nodes.NodeBlock.evaluate", "ckl.nodes.NodeError", "ckl.errors.CklRuntimeError",
             "ckl.parser.parse_block (catch/finally clauses)", "ckl.nodes.NodeIf/NodeFor/NodeReturn/NodeBreak/NodeContinue",
             "ckl.functions.FuncLambda.execute", "ckl.interpreter.Interpreter.interpret"]
OUTSIDE = ["the own effect of return/break/continue inside a finally part (only: it must not swallow an error in flight)",
           "quick tier: second fault is an error or a return, first fault not an undefined name / division by zero (the host-origin runtime error stands for them), error values of 3 kinds", "thorough tier: second fault not an undefined name / division by zero; depth-3 shapes with 3 kinds of error values", "nesting deeper than the bound", "return/break/continue inside a finally part (unspecified)",
           "more than two fault points firing in one run", "the hosts run.py / repl.py"]
REACH = {"normal", "caught", "escaped", "returned"}
CELL_SECONDS_THOROUGH = 1800


def bounds(tier):
    return {"depth": 2 if tier == "quick" else 3, "shapes": len(shapes(tier)), "faults_per_run": 2}


def all_positions(x):
    """every fault point id inside a (nested) node structure"""
    out = []
    if isinstance(x, tuple) and x and x[0] == "exit":
        return [x[1]]
    if isinstance(x, (list, tuple)):
        for y in x:
            out += all_positions(y)
    return out


class Gen:
    def __init__(self):
        self.pos = 0
        self.tag = 0
        self.ncatch = 0
        self.finpos = set()     # fault points inside finally parts: errors only (see OUTSIDE)

    def exit(self):
        self.pos += 1
        return ("exit", self.pos)

    def log(self):
        self.tag += 1
        return ("log", self.tag)

    def lit(self):
        self.tag += 1
        return ("lit", self.tag)

    def cv(self):
        self.ncatch += 1
        return "cv%d" % self.ncatch

    def block(self, inner_body=None, inner_handler=None, inner_fin=None, catches=2, fin=True, call=None):
        body = [self.log(), self.exit()]
        if inner_body:
            body += inner_body
        if call:
            body += [("call", call, self.next_tag())]
        body += [self.exit(), self.log(), self.lit()]
        cs = []
        for i in range(catches):
            h = [self.log(), self.exit()]
            if inner_handler and i == 0:
                h += inner_handler
            h += [self.lit()]
            cs.append((self.cv() if i == 0 else "all", h))
        f = []
        if fin:
            p0 = self.pos
            f = [self.log(), self.exit()]
            if inner_fin:
                f += inner_fin
            f += [self.log()]
            self.finpos |= set(range(p0 + 1, self.pos + 1)) | set(all_positions(inner_fin or []))
        return ("block", body, cs, f)

    def next_tag(self):
        self.tag += 1
        return self.tag


def shapes(tier):
    out = []

    def add(name, build):
        g = Gen()
        prog = build(g)
        out.append((name, prog, g))

    add("top", lambda g: [g.block(), g.log(), g.lit()])
    add("top-nofinally", lambda g: [g.block(fin=False), g.log(), g.lit()])
    add("top-catchall-only", lambda g: [g.block(catches=0), g.log(), g.lit()])
    add("in-function", lambda g: [("fun", "f", [g.log(), g.block(), g.lit()]), ("call", "f", g.next_tag()), g.lit()])
    add("block-last-in-function", lambda g: [("fun", "f", [g.block()]), ("call", "f", g.next_tag()), g.lit()])
    add("in-loop", lambda g: [("for", "i", "items", [g.log(), g.block(), g.log()]), g.lit()])
    add("in-loop-in-function", lambda g: [("fun", "f", [("for", "i", "items", [g.block(), g.log()]), g.lit()]),
                                          ("call", "f", g.next_tag()), g.lit()])
    add("nested-in-body", lambda g: [g.block(inner_body=[g.block(catches=1)]), g.lit()])
    add("nested-in-handler", lambda g: [g.block(inner_handler=[g.block(catches=1)]), g.lit()])
    add("nested-in-finally", lambda g: [g.block(inner_fin=[g.block(catches=1, fin=False)]), g.lit()])
    add("error-crosses-function", lambda g: [("fun", "f", [g.log(), g.exit(), g.block(catches=1), g.lit()]),
                                             g.block(call="f"), g.lit()])
    # the error unwinds through calls whose arguments are short / long / nested values
    add("error-crosses-function-with-args", lambda g: [
        ("fun1", "f", [g.log(), g.exit(), g.lit()]),
        ("fun1", "h", [g.log(), ("call1", "f", "big", g.next_tag()), g.exit(), g.lit()]),
        g.block(inner_body=[("call1", "h", "big", g.next_tag())]), g.lit()])
    # the finally part calls a function that has its own early exit while an exit is pending
    add("finally-calls-function", lambda g: [
        ("fun", "h", [g.log(), g.exit(), g.lit()]),
        ("fun", "f", [("for", "i", "items", [g.block(inner_fin=[("call", "h", g.next_tag())], catches=1), g.log()]), g.lit()]),
        ("call", "f", g.next_tag()), g.lit()])
    # a function whose whole body is a block holding a single `return <call>`
    for nm, catches, fin in (("return-only-body-catch-finally", 2, True), ("return-only-body-finally", 0, True),
                             ("return-only-body-catch", 1, False)):
        def build(g, catches=catches, fin=fin):
            cs = []
            for i in range(catches):
                cs.append((g.cv() if i == 0 else "all", [g.log(), g.exit(), g.lit()]))
            f = [g.log(), g.exit(), g.log()] if fin else []
            return [("fun", "h", [g.log(), g.exit(), g.lit()]),
                    ("fun", "f", [("block", [("return_call", "h")], cs, f)]),
                    ("call", "f", g.next_tag()), g.log(), g.lit()]
        add(nm, build)
    add("loop-in-block", lambda g: [g.block(inner_body=[("for", "i", "items", [g.log(), g.exit(), g.log()])]), g.lit()])
    if tier != "quick":
        add("depth3-body", lambda g: [g.block(inner_body=[g.block(inner_body=[g.block(catches=1)], catches=1)]), g.lit()])
        add("depth3-mixed", lambda g: [g.block(inner_handler=[g.block(inner_fin=[g.block(catches=1, fin=False)], catches=1)]), g.lit()])
        add("fn-in-loop-in-block", lambda g: [("fun", "f", [g.block(catches=1), g.lit()]),
                                               g.block(inner_body=[("for", "i", "items", [("call", "f", g.next_tag()), g.exit()])]),
                                               g.lit()])
    return out


EVKINDS = ["int", "str", "list", "null", "bool"]


def cells(tier, seed):
    out = []
    for i, (name, prog, g) in enumerate(shapes(tier)):
        for p in range(1, g.pos + 1):
            out.append({"shape": i, "name": name, "sel": p, "tier": tier})
        out.append({"shape": i, "name": name, "sel": 0, "tier": tier})
    return out


def mkev(ctx, name, kind):
    if kind == "int":
        return vint(ctx.int(name, -3, 3))
    if kind == "str":
        return vstr(("ERROR", "x")[ctx.choice(name, 2)])
    if kind == "list":
        return vlist([vint(ctx.int(name, 0, 1))])
    if kind == "null":
        return V.NULL
    return V.TRUE


def run(ctx, cell):
    name, prog, g = shapes("thorough")[cell["shape"]]
    key = "C05:" + name
    sel = cell["sel"]
    sel2 = ctx.int("sel2", 0, g.pos)
    kind = ctx.int("kind", 0, 6)
    kind2 = ctx.int("kind2", 0, 6)
    quick = cell.get("tier") == "quick"
    # return / break / continue inside a finally part: its own effect is unspecified, but it must
    # never swallow an error that is in flight (see tdsl.FinCtl)
    if quick:
        ctx.assume(b_or(kind2 == 0, kind2 == 3))
        ctx.assume(kind != 2)
        ctx.assume(kind != 1)          # (kinds 1, 2 and 6 are all runtime 'ERROR's; quick keeps the host-error one)          # kinds 1 and 2 are both runtime 'ERROR's; the thorough tier keeps both
    else:
        # thorough: the second fault is not an undefined name / division by zero (kinds 1, 2 and 6 are all
        # runtime 'ERROR's; the first fault keeps all seven kinds)
        ctx.assume(kind2 != 1)
        ctx.assume(kind2 != 2)
    deep = name.startswith("depth3")
    evk = EVKINDS[ctx.choice("evk", 3 if (quick or deep) else len(EVKINDS))]
    ev = mkev(ctx, "ev", evk)
    ev2 = mkev(ctx, "ev2", "int")
    rv = vint(ctx.int("rv", 50, 51 if quick else 52))
    rv2 = vint(60)
    vals = {"sel": sel, "sel2": sel2, "kind": kind, "kind2": kind2, "ev": ev, "ev2": ev2, "rv": rv, "rv2": rv2,
            "items": [vint(1), vint(2)]}
    env = {"sel": vint(sel), "sel2": vint(sel2), "kind": vint(kind), "kind2": vint(kind2), "ev": ev,
           "ev2": ev2, "rv": rv, "rv2": rv2, "items": vlist([vint(1), vint(2)]), "log": vlist([])}
    bigs = [vstr("x" * 60), vlist([vint(i) for i in range(30)]), vstr("short")]
    env["big"] = bigs[ctx.choice("big", len(bigs))]
    for i in range(1, g.ncatch + 1):
        # catch values: same kind as the error value so that both matching and non-matching occur;
        # for int errors the first catch value is the decimal of a symbolic int (1 == 1.0 selects the handler)
        if evk == "int" and i == 1:
            from symex.shims import sym_float
            from harness.common import vdec
            cv = vdec(sym_float(ctx.int("cv%d" % i, -3, 3)))
        else:
            cv = mkev(ctx, "cv%d" % i, evk)
        vals["cv%d" % i] = cv
        env["cv%d" % i] = cv
    text = tdsl.render(prog)
    out = run_ckl(text, env)
    detail = lambda: {"program": text, "values": {k: ctx.plain(v) for k, v in env.items() if k != "log"},
                      "got": ctx.plain(out), "log": ctx.plain(env["log"])}
    if out.kind in ("host", "syn"):
        ctx.fail("%s:%s:%s" % (key, out.kind, out.hostname() or "syntax-error"), detail)
        return out

    def mk(x):
        if isinstance(x, list):
            return vlist(x)
        if isinstance(x, V.Value):
            return x
        return vint(x)
    ref = tdsl.Ref(dict(vals), mk=mk, error=vstr("ERROR"))
    status, rval = ref.toplevel(prog)
    explog = vlist(ref.log)
    if ref.all_unspecified:
        return ["unspecified"]
    d2 = lambda: dict(detail(), expected=[status, ctx.plain(rval), ctx.plain(explog)])
    if status == "ok":
        ctx.reach("normal")
        if ctx.check(out.kind == "ok", key + ":error-escaped-where-none-expected", d2):
            if rval is not None:
                ctx.check(out.value == rval, key + ":wrong-result", d2)
    else:
        ctx.reach("escaped")
        if ctx.check(out.kind == "rt", key + ":expected-error-did-not-escape", d2):
            ctx.check(out.exc.value == rval, key + ":escaping-error-value-changed", d2)
    if not ref.log_unspecified:
        ctx.check(env["log"] == explog, key + ":event-log-differs", d2)
    if len(ref.log) > 0:
        ctx.reach("caught")
    ctx.reach("returned")
    return [out, env["log"]]
