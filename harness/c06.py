"""C06 -- equality is an equivalence that set membership and map lookup respect.

laws : pairs / triples of data values; kinds enumerated, payloads symbolic (unbounded ints,
       integral decimals up to 2^53, strings of length <= 2, symbolic booleans, int lists).
       ==, !=, equals through the real interpreter and Value.__eq__ directly: reflexive,
       symmetric, transitive, numeric across int/decimal, never equal across other kinds.
hash : finite pool (ints around 2^53 / 2^63 / 2^64, equal decimals, strings, ...) selected by
       symbolic indices: a == b implies hash(a) == hash(b).
sets : up to 3 (thorough 4) pool elements in a symbolic insertion order through the real
       set / map machinery: no two equal elements in a set, membership / lookup / removal /
       container equality agree for every equal representative and every insertion order."""
import datetime as _dt

import ckl.values as V

from harness.common import run_ckl, vint, vstr, vbool, vdec, vlist, vset, vmap, b_not, b_and, b_or
from symex.shims import sym_float

FUNCTIONS = ["ckl.values.Value*.__eq__/__hash__", "ckl.functions.FuncEquals/FuncNotEquals/FuncRemove/FuncSub",
             "ckl.nodes.NodeIn.evaluate", "ckl.values.ValueSet/ValueMap (host set/dict)",
             "ckl.nodes.NodeDeref (map lookup)"]
OUTSIDE = ["non-finite decimals", "function / stream / node values", "hash consistency outside the pool",
           "containers of more than 4 elements", "fractional decimals other than pool members"]
REACH = {"laws", "hash", "sets"}

KINDS = ["null", "bool", "int", "dec", "str", "pattern", "date", "list"]
PATTERNS = ["a", "a+", "1"]
DATES = [_dt.datetime(2000, 1, 1), _dt.datetime(2000, 1, 2),
         # two dates inside one calendar second (they arise from date arithmetic with fractional days)
         _dt.datetime(2000, 1, 1, 0, 0, 0, 250000), _dt.datetime(2000, 1, 1, 0, 0, 0, 500000)]


def pool():
    big = 2 ** 53
    return [vint(0), vint(1), vdec(1.0), vint(2), vdec(2.0), vdec(2.5), vint(big), vdec(float(big)),
            vint(big + 1), vint(2 ** 63), vdec(float(2 ** 63)), vint(2 ** 64), vint(-1), vdec(-1.0),
            vstr("a"), vstr("1"), vstr(""), V.TRUE, V.FALSE, V.NULL, vlist([vint(1)]),
            vlist([vdec(1.0)]), V.ValuePattern("a"), V.ValueDate(DATES[0]), V.ValueDate(DATES[2]), V.ValueDate(DATES[3]), vint(3), vint(11), vstr("11"),
            vset([vint(1)]), vset([vdec(1.0)]), vmap([(vint(1), vint(2))]), vmap([(vdec(1.0), vdec(2.0))]),
            # maps of the same size with different key sets and NULL values
            vmap([(vstr("a"), V.NULL)]), vmap([(vstr("b"), V.NULL)]), vmap([(vstr("b"), vint(1))])]


def bounds(tier):
    return {"string_len": 2, "pool": len(pool()), "set_elements": 3 if tier == "quick" else 4}


def cells(tier, seed):
    out = []
    for a in KINDS:
        for b in KINDS:
            out.append({"k": "pair", "kinds": [a, b]})
    for t in [("int", "dec", "int"), ("dec", "int", "dec"), ("int", "int", "dec"), ("int", "int", "int"),
              ("dec", "dec", "dec"), ("str", "str", "str"), ("list", "list", "list"),
              ("bool", "bool", "bool"), ("int", "bool", "dec"), ("str", "int", "str"),
              ("null", "int", "null"), ("pattern", "str", "pattern"), ("date", "date", "date")]:
        out.append({"k": "triple", "kinds": list(t)})
    n = len(pool())
    for i in range(n):
        out.append({"k": "hash", "first": i})
    for i in range(n):
        if bounds(tier)["set_elements"] <= 3:
            out.append({"k": "sets", "first": i, "n": 3})
        else:
            for j in range(n):
                out.append({"k": "sets", "first": i, "second": j, "n": 4})
    for h in range(len(MUT_HASH)):
        out.append({"k": "mutate", "hash": h})
    return out


# a list is hashed, then changed in place, then used as element / key again
MUT_HASH = ["l in <<[0]>>", "<<l>>", "put(<<<>>>, l, 1)", "[l] in <<[[0]]>>", "put(<<<>>>, l, 1)[l]", "l in put(<<<>>>, [0], 1)", "0"]
MUT_OPS = ["l[0] = v", "l[1][0] = v", "append(l[1], v)", "append(l, v)", "delete_at(l, 0)", "l[1] = [v]",
           "insert_at(l, 0, v)", "l[-1] = v", "remove(l[1], b)", "l !> append(v)", "def inner = l[1]; inner[0] = v"]


def deep(v):
    if isinstance(v, V.ValueList):
        return vlist([deep(x) for x in v.value])
    return v


def run_mutate(ctx, cell):
    ctx.reach("sets")
    small = [vint(0), vint(1), vdec(1.0), vstr("a"), vint(9)]
    a = small[ctx.choice("a", len(small))]
    b = small[ctx.choice("b", len(small))]
    v = small[ctx.choice("v", len(small))]
    mi = ctx.choice("mut", len(MUT_OPS))
    key = "C06:mutate"
    env = {"a": a, "b": b, "v": v}
    prog = "def l = [a, [b]]; %s; %s; l" % (MUT_HASH[cell["hash"]], MUT_OPS[mi])
    out = run_ckl(prog, env)
    detail = lambda: {"program": prog, "a": str(a), "b": str(b), "v": str(v)}
    if out.kind != "ok":
        ctx.fail("%s:%s:%s" % (key, out.kind, out.hostname() or "runtime-error"), lambda: dict(detail(), exc=str(out.exc)))
        return out
    l = out.value
    c = deep(l)               # a fresh list with the same contents
    out2 = run_ckl("[l == c, l in <<c>>, c in <<l>>, put(<<<>>>, c, 1)[l, 'missing'], put(<<<>>>, l, 1)[c, 'missing'], "
                   "length(<<l, c>>), length(set([l, c])), [l] in <<[c]>>, find([c], l)]", {"l": l, "c": c})
    d2 = lambda: dict(detail(), after=str(l), got=str(out2.value if out2.kind == "ok" else out2.exc))
    if out2.kind != "ok":
        ctx.fail("%s:%s:%s" % (key, out2.kind, out2.hostname() or "runtime-error"), d2)
        return out2
    ctx.check(str(out2.value) == "[TRUE, TRUE, TRUE, 1, 1, 1, 1, TRUE, 0]", key + ":changed-list-not-interchangeable-with-equal-list", d2)
    ctx.check(hash(l) == hash(c), key + ":equal-values-hash-differently", d2)
    return [str(l), str(out2.value)]


def mk(ctx, kind, name):
    if kind == "null":
        return V.NULL
    if kind == "bool":
        return vbool(ctx.bool(name))
    if kind == "int":
        return vint(ctx.int(name))
    if kind == "dec":
        return vdec(sym_float(ctx.int(name, -2 ** 53, 2 ** 53)))
    if kind == "str":
        n = ctx.choice(name + ".len", 3)
        return vstr(ctx.str(name, n))
    if kind == "pattern":
        return V.ValuePattern(PATTERNS[ctx.choice(name, len(PATTERNS))])
    if kind == "date":
        return V.ValueDate(DATES[ctx.choice(name, len(DATES))])
    if kind == "list":
        n = ctx.choice(name + ".len", 3)
        items = []
        for i in range(n):
            if ctx.choice("%s.%d.dec" % (name, i), 2):
                items.append(vdec(sym_float(ctx.int("%s.%d" % (name, i), -4, 4))))
            else:
                items.append(vint(ctx.int("%s.%d" % (name, i), -4, 4)))
        return vlist(items)
    raise AssertionError(kind)


def numeric(kind):
    return kind in ("int", "dec")


def payload_eq(kind, x, y):
    """defined equality for two values of the SAME family"""
    if kind == "list":
        if len(x.value) != len(y.value):
            return False
        r = True
        for a, b in zip(x.value, y.value):
            r = b_and(r, a.value == b.value)
        return r
    if kind == "null":
        return True
    return x.value == y.value


def tv(v):
    return v.value


def run(ctx, cell):
    k = cell["k"]
    if k in ("pair", "triple"):
        return run_laws(ctx, cell)
    if k == "hash":
        return run_hash(ctx, cell)
    if k == "sets":
        return run_sets(ctx, cell)
    if k == "mutate":
        return run_mutate(ctx, cell)
    raise AssertionError(k)


def run_laws(ctx, cell):
    ctx.reach("laws")
    kinds = cell["kinds"]
    key = "C06:laws:" + "-".join(kinds)
    names = ["x", "y", "z"][:len(kinds)]
    vals = {n: mk(ctx, kd, n) for n, kd in zip(names, kinds)}
    if len(kinds) == 2:
        text = "[x == y, y == x, x != y, equals(x, y), x == x, y == y, not_equals(x, y)]"
    else:
        text = "[x == y, y == z, x == z, y == x, z == y]"
    out = run_ckl(text, dict(vals))
    detail = lambda: {"values": {n: ctx.plain(v) for n, v in vals.items()}, "got": ctx.plain(out)}
    if out.kind != "ok":
        ctx.fail("%s:%s:%s" % (key, out.kind, out.hostname() or "runtime-error"), detail)
        return out
    r = [tv(b) for b in out.value.value]
    x, y = vals["x"], vals["y"]
    if len(kinds) == 2:
        xy, yx, ne, eqf, xx, yy, nef = r
        ctx.check(xy == yx, key + ":not-symmetric", detail)
        ctx.check(xx and yy, key + ":not-reflexive", detail)
        ctx.check(ne == (not xy), key + ":not-equals-is-not-the-negation", detail)
        ctx.check(eqf == xy and nef == ne, key + ":equals-function-differs-from-operator", detail)
        same = kinds[0] == kinds[1] or (numeric(kinds[0]) and numeric(kinds[1]))
        if not same:
            ctx.check(not xy, key + ":equal-across-kinds", detail)
        else:
            ctx.check(xy == payload_eq(kinds[0], x, y), key + ":disagrees-with-defined-equality", detail)
        # the API relation is the same relation
        api = (x == y)
        ctx.check((True if api else False) == xy, key + ":api-differs-from-language", detail)
    else:
        xy, yz, xz, yx, zy = r
        if xy and yz:
            ctx.check(xz, key + ":not-transitive", detail)
        ctx.check(xy == yx and yz == zy, key + ":not-symmetric", detail)
    return out


def run_hash(ctx, cell):
    ctx.reach("hash")
    p = pool()
    a = p[cell["first"]]
    j = ctx.choice("j", len(p))
    b = p[j]
    key = "C06:hash"
    eq = (a == b)
    eq2 = (b == a)
    detail = lambda: {"a": str(a), "b": str(b)}
    ctx.check((True if eq else False) == (True if eq2 else False), key + ":not-symmetric", detail)
    if eq:
        ctx.check(hash(a) == hash(b), key + ":equal-values-hash-differently", detail)
    return [str(a), str(b), True if eq else False]


def run_sets(ctx, cell):
    ctx.reach("sets")
    p = pool()
    n = cell["n"]
    fixed = [cell["first"]] + ([cell["second"]] if "second" in cell else [])
    idx = fixed + [ctx.choice("e%d" % i, len(p)) for i in range(len(fixed), n)]
    els = [p[i] for i in idx]
    key = "C06:sets"
    detail = lambda: {"elements": [str(e) for e in els]}
    # host containers built in insertion order and in reverse insertion order
    env = {"s": vset(els), "t": vset(list(reversed(els))),
           "m": vmap([(e, vint(7)) for e in els]), "m2": vmap([(e, vint(7)) for e in reversed(els)])}
    text = ("[s == t, TRUE, length(s), m == m2, TRUE, "
            "[x in s for x in probes], [m[x, 'missing'] for x in probes], list(s), "
            "[length(remove(s + [], x)) for x in list(s)], [x in t for x in probes], "
            "[m2[x, 'missing'] for x in probes], "
            "[length(<<s, t>>), s in <<t>>, <<s>> == <<t>>, put(<<<>>>, s, 1)[t, 'missing'], length(<<m, m2>>), "
            "m in <<m2>>, put(<<<>>>, m, 1)[m2, 'missing'], [s] == [t], find([t], s)], "
            "[x in l for x in probes], [find(l, x) >= 0 for x in probes], [x is in l for x in probes], "
            "[not (x not in l) for x in probes]]")
    env["l"] = vlist(els)
    env["probes"] = vlist(p)
    out = run_ckl(text, env)
    if out.kind != "ok":
        ctx.fail("%s:%s:%s" % (key, out.kind, out.hostname() or "runtime-error"),
                 lambda: {"elements": [str(e) for e in els], "exc": str(out.exc)})
        return out
    st, strst, ln, mm, strmm, member, lookup, items, rem, member2, lookup2, nested, lmem, lfind, lisin, lnotin = out.value.value
    # membership in a LIST holding the same elements agrees with set membership for every representative
    for pi, probe in enumerate(p):
        expect = any(probe == e for e in els)
        for got, form in ((lmem, "in"), (lfind, "find")):       # (the other spellings of `in`: C02 member cells)
            ctx.check(tv(got.value[pi]) == expect, key + ":list-membership-depends-on-representative[%s]" % form,
                      lambda: {"elements": [str(e) for e in els], "probe": str(probe)})
    # equal containers are interchangeable as elements / keys themselves
    ctx.check(str(nested) == "[1, TRUE, TRUE, 1, 1, TRUE, 1, TRUE, 0]", key + ":equal-containers-not-interchangeable-when-nested",
              lambda: {"elements": [str(e) for e in els], "got": str(nested)})
    ctx.check(hash(env["s"]) == hash(env["t"]), key + ":equal-sets-hash-differently", detail)
    ctx.check(hash(env["m"]) == hash(env["m2"]), key + ":equal-maps-hash-differently", detail)
    ctx.check(tv(st), key + ":set-equality-depends-on-insertion-order", detail)
    ctx.check(tv(strst), key + ":set-rendering-depends-on-insertion-order", detail)
    ctx.check(tv(mm), key + ":map-equality-depends-on-insertion-order", detail)
    ctx.check(tv(strmm), key + ":map-rendering-depends-on-insertion-order", detail)
    its = items.value
    # a set never holds two equal elements
    for i in range(len(its)):
        for j in range(i + 1, len(its)):
            ctx.check(not (its[i] == its[j]), key + ":set-holds-two-equal-elements", detail)
    # distinct count by the defined equality
    distinct = []
    for e in els:
        if not any(e == d for d in distinct):
            distinct.append(e)
    ctx.check(ln.value == len(distinct), key + ":wrong-cardinality", detail)
    # membership / lookup for every representative in the pool
    for pi, probe in enumerate(p):
        expect = any(probe == e for e in els)
        ctx.check(tv(member.value[pi]) == expect, key + ":membership-depends-on-representative",
                  lambda: {"elements": [str(e) for e in els], "probe": str(probe)})
        found = not (lookup.value[pi] == vstr("missing"))
        ctx.check(found == expect, key + ":map-lookup-depends-on-representative",
                  lambda: {"elements": [str(e) for e in els], "probe": str(probe)})
        ctx.check(tv(member2.value[pi]) == expect, key + ":membership-depends-on-insertion-order",
                  lambda: {"elements": [str(e) for e in els], "probe": str(probe)})
        found2 = not (lookup2.value[pi] == vstr("missing"))
        ctx.check(found2 == expect, key + ":map-lookup-depends-on-insertion-order",
                  lambda: {"elements": [str(e) for e in els], "probe": str(probe)})
    for r in rem.value:
        ctx.check(r.value == len(distinct) - 1, key + ":remove-did-not-remove-exactly-one", detail)
    return out
