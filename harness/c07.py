"""C07 -- comparison is a total order per kind and sorting agrees with it.

order : pairs/triples of same-kind values with symbolic payloads (ints unbounded, integral
        decimals up to 2^53 mixed with ints, strings of length <= 2 (thorough 3) over
        unconstrained characters, symbolic booleans, dates by pool index, lists of ints),
        through `x < y`, `compare`, `<=`, `>`, `>=`, `==`, min, max of the real interpreter.
        Oracle: numeric order / code-point lexicographic order / FALSE<TRUE / chronological /
        element-wise lexicographic; strict-order laws as solver obligations.
sorted: lists of [key, tag] pairs with symbolic int keys (duplicates allowed: the solver
        decides) and distinct tags: default, key=, cmp=.  Result must be a permutation, keys
        non-decreasing, equal keys in original order.
enum  : sets / map keys over a small symbolic domain enumerate in ascending order."""
import datetime as _dt

import ckl.values as V

from harness.common import run_ckl, vint, vstr, vbool, vdec, vlist, vset, vmap, raise_site, b_not, b_and, b_or
from symex.shims import sym_float

FUNCTIONS = ["ckl.values.Value*.__lt__/__eq__ (+ functools.total_ordering completions)",
             "ckl.functions.FuncCompare/FuncLess/FuncLessEquals/FuncGreater/FuncGreaterEquals/FuncEquals",
             "ckl.functions.FuncSorted.execute", "core.ckl min/max", "ckl.values.ValueSet.getSortedItems",
             "ckl.values.ValueMap.getSortedKeys", "ckl.nodes.NodeFor (set/map iteration)"]
OUTSIDE = ["cross-kind ordering", "non-finite decimals", "fractional decimals (host float compare)",
           "sorted on lists longer than the bound", "strings longer than the bound"]
REACH = {"order", "sorted", "enum"}

# chronological (the oracle orders dates by their index in this pool)
DATES = [_dt.datetime(999, 12, 31), _dt.datetime(1000, 1, 1),
         _dt.datetime(1999, 12, 31), _dt.datetime(2000, 1, 1), _dt.datetime(2000, 1, 1, 0, 0, 1),
         # dates inside one calendar second (they arise from date arithmetic with fractional days)
         _dt.datetime(2000, 1, 1, 0, 0, 1, 250000), _dt.datetime(2000, 1, 1, 0, 0, 1, 500000),
         _dt.datetime(2024, 2, 29, 12)]


def bounds(tier):
    q = tier == "quick"
    return {"string_len": 2 if q else 3, "sorted_len": 4 if q else 6, "list_len": 2,
            "enum_set_size": 3, "date_pool": len(DATES)}


KINDS = ["int", "num", "str", "bool", "date", "list", "numfrac"]


def cells(tier, seed):
    b = bounds(tier)
    out = []
    for kind in KINDS:
        if kind == "str":
            for la in range(0, b["string_len"] + 1):
                for lb in range(0, b["string_len"] + 1):
                    out.append({"k": "pair", "kind": kind, "la": la, "lb": lb})
            for ls in [(0, 1, 1), (1, 1, 1), (1, 2, 1), (2, 1, 2), (1, 1, 2), (2, 2, 2)]:
                out.append({"k": "triple", "kind": kind, "ls": list(ls)})
        elif kind == "list":
            for la in range(0, 3):
                for lb in range(0, 3):
                    out.append({"k": "pair", "kind": kind, "la": la, "lb": lb})
            out.append({"k": "triple", "kind": kind, "ls": [1, 2, 1]})
        else:
            out.append({"k": "pair", "kind": kind, "la": 0, "lb": 0})
            out.append({"k": "triple", "kind": kind, "ls": [0, 0, 0]})
    for n in range(0, b["sorted_len"] + 1):
        for mode in ("default", "key", "cmp", "keycmp"):
            out.append({"k": "sorted", "n": n, "mode": mode})
    for what in ("set", "mapkeys", "setmix", "mapkeysmix", "setseq", "mapseq"):
        out.append({"k": "enum", "what": what})
    for n in range(2, 4 if tier == "quick" else 5):
        for ki in range(len(MIXKEYS)):
            out.append({"k": "sortedmix", "n": n, "key": ki})
    return out


# sorted() over elements that are EQUAL but distinguishable (1 and 1.0, [1] and [1.0]) with key
# functions that tell them apart: finite domain, elements chosen by symbolic selectors
MIXPOOL = ["1", "1.0", "2", "2.0", "[1]", "[1.0]", "0"]
MIXKEYS = ["fn(x) string(x)", "fn(x) type(x)", "fn(x) length(string(x))", "fn(x) [type(x), x]", "identity"]


def mk(ctx, kind, name, n=0):
    """(ckl value, oracle key) -- oracle keys compare with python < and == in the defined order"""
    if kind == "int":
        v = ctx.int(name)
        return vint(v), v
    if kind == "num":
        # ints and (integral) decimals mixed: which one is a choice
        if ctx.choice(name + ".isdec", 2):
            v = ctx.int(name, -2 ** 53, 2 ** 53)
            return vdec(sym_float(v)), v
        v = ctx.int(name)
        return vint(v), v
    if kind == "numfrac":
        # ints next to decimals with a fractional part (negative ones too): the oracle key is twice the value
        if ctx.choice(name + ".isdec", 2):
            k_ = ctx.choice(name, 8) - 4
            return vdec(k_ + 0.5), 2 * k_ + 1
        v = ctx.int(name, -4, 4)
        return vint(v), 2 * v
    if kind == "str":
        s = ctx.str(name, n)
        return vstr(s), s
    if kind == "bool":
        b = ctx.bool(name)
        return vbool(b), b
    if kind == "date":
        i = ctx.choice(name, len(DATES))
        return V.ValueDate(DATES[i]), i
    if kind == "list":
        xs = [ctx.int("%s%d" % (name, i), -3, 3) for i in range(n)]
        return vlist([vint(x) for x in xs]), xs
    raise AssertionError(kind)


def olt(kind, a, b):
    """the defined strict order on oracle keys"""
    if kind == "bool":
        return b_and(b_not(a), b)
    if kind == "list":
        for x, y in zip(a, b):
            if x == y:
                continue
            return x < y
        return len(a) < len(b)
    return a < b


def oeq(kind, a, b):
    if kind == "list":
        if len(a) != len(b):
            return False
        r = True
        for x, y in zip(a, b):
            r = r & (x == y)
        return r
    return a == b


def tv(x):
    """ckl boolean -> python bool (concrete: the evaluator has forked)"""
    return x.value


def run(ctx, cell):
    k = cell["k"]
    if k == "pair":
        return run_pair(ctx, cell)
    if k == "triple":
        return run_triple(ctx, cell)
    if k == "sorted":
        return run_sorted(ctx, cell)
    if k == "enum":
        return run_enum(ctx, cell)
    if k == "sortedmix":
        return run_sortedmix(ctx, cell)
    raise AssertionError(k)


def run_sortedmix(ctx, cell):
    ctx.reach("sorted")
    n = cell["n"]
    keyfn = MIXKEYS[cell["key"]]
    key = "C07:sortedmix"
    idx = [ctx.choice("e%d" % i, len(MIXPOOL)) for i in range(n)]
    if len(set(idx)) != n:
        return ["duplicate pool entries: skipped"]
    elems = [MIXPOOL[i] for i in idx]
    # raw elements: 1 and 1.0 are EQUAL values with different renderings / types / keys
    lit = "[" + ", ".join(elems) + "]"
    prog = ("def kf = %s; def l = %s; def r = sorted(l, key = kf); "
            "[[string(x) for x in r], [compare(kf(r[i]), kf(r[i + 1])) for i in range(length(r) - 1)]]" % (keyfn, lit))
    out = run_ckl(prog)
    detail = {"elements": elems, "key": keyfn, "got": ctx.plain(out)}
    if out.kind != "ok":
        ctx.fail("%s:%s:%s" % (key, out.kind, out.hostname() or "runtime-error"), detail)
        return out
    res, cmps = out.value.value
    rend = [x.value for x in res.value]
    if not ctx.check(sorted(rend) == sorted(elems), key + ":not-a-permutation", detail):
        return out
    poss = [elems.index(x) for x in rend]
    for i, c in enumerate(cmps.value):
        ctx.check(c.value <= 0, key + ":not-ordered-by-key", detail)
        if c.value == 0:
            ctx.check(poss[i] < poss[i + 1], key + ":not-stable", detail)
    return out
    res, cmps = out.value.value
    poss = [p.value[1].value for p in res.value]
    ctx.check(sorted(poss) == list(range(n)), key + ":not-a-permutation", detail)
    for i, c in enumerate(cmps.value):
        ctx.check(c.value <= 0, key + ":not-ordered-by-key", detail)
        if c.value == 0:
            ctx.check(poss[i] < poss[i + 1], key + ":not-stable", detail)
    return out


def notb(b):
    from symex.proxies import s_not
    return s_not(b) if ctx_is_sym(b) else (not b)


def ctx_is_sym(b):
    return type(b).__name__ == "SymBool"


def run_pair(ctx, cell):
    ctx.reach("order")
    kind = cell["kind"]
    key = "C07:order:" + kind
    x, ox = mk(ctx, kind, "x", cell["la"])
    y, oy = mk(ctx, kind, "y", cell["lb"])
    out = run_ckl("[x < y, x > y, x == y, x <= y, x >= y, compare(x, y), y < x, min(x, y), max(x, y),"
                  " x != y]", {"x": x, "y": y})
    detail = lambda: {"x": ctx.plain(x), "y": ctx.plain(y), "got": ctx.plain(out)}
    if out.kind != "ok":
        ctx.fail("%s:%s:%s" % (key, out.kind, out.hostname() or "runtime-error"), detail)
        return out
    r = out.value.value
    lt, gt, eq, le, ge, cmpv, ylt, mn, mx, ne = r
    elt, eeq = olt(kind, ox, oy), oeq(kind, ox, oy)
    egt = olt(kind, oy, ox)
    ctx.check(tv(lt) == elt, key + ":less-disagrees-with-defined-order", detail)
    ctx.check(tv(gt) == egt, key + ":greater-disagrees-with-defined-order", detail)
    ctx.check(tv(eq) == eeq, key + ":equals-disagrees", detail)
    ctx.check(tv(ne) == b_not(eeq), key + ":not-equals-disagrees", detail)
    # exactly one of <, ==, >
    n_true = (1 if tv(lt) else 0) + (1 if tv(eq) else 0) + (1 if tv(gt) else 0)
    ctx.check(n_true == 1, key + ":not-exactly-one-of-lt-eq-gt", detail)
    ctx.check(tv(ylt) == tv(gt), key + ":greater-is-not-swapped-less", detail)
    ctx.check(tv(le) == (tv(lt) or tv(eq)), key + ":less-equals-inconsistent", detail)
    ctx.check(tv(ge) == (tv(gt) or tv(eq)), key + ":greater-equals-inconsistent", detail)
    c = cmpv.value
    ctx.check((c < 0) == tv(lt), key + ":compare-inconsistent", detail)
    ctx.check((c > 0) == tv(gt), key + ":compare-inconsistent", detail)
    # min / max return an extreme element
    ctx.check((mn == x) | (mn == y), key + ":min-not-an-argument", detail)
    ctx.check((mx == x) | (mx == y), key + ":max-not-an-argument", detail)
    if tv(lt):
        ctx.check(mn == x, key + ":min-wrong", detail)
        ctx.check(mx == y, key + ":max-wrong", detail)
    if tv(gt):
        ctx.check(mn == y, key + ":min-wrong", detail)
        ctx.check(mx == x, key + ":max-wrong", detail)
    return out


def run_triple(ctx, cell):
    ctx.reach("order")
    kind = cell["kind"]
    key = "C07:order:" + kind
    ls = cell["ls"]
    x, ox = mk(ctx, kind, "x", ls[0])
    y, oy = mk(ctx, kind, "y", ls[1])
    z, oz = mk(ctx, kind, "z", ls[2])
    out = run_ckl("[x < y, y < z, x < z, x < x, x == y, y == z, x == z, max([x, y, z]), min([x, y, z])]",
                  {"x": x, "y": y, "z": z})
    detail = lambda: {"x": ctx.plain(x), "y": ctx.plain(y), "z": ctx.plain(z), "got": ctx.plain(out)}
    if out.kind != "ok":
        ctx.fail("%s:%s:%s" % (key, out.kind, out.hostname() or "runtime-error"), detail)
        return out
    xy, yz, xz, xx, exy, eyz, exz, mx, mn = out.value.value
    ctx.check(not tv(xx), key + ":not-irreflexive", detail)
    if tv(xy) and tv(yz):
        ctx.check(tv(xz), key + ":not-transitive", detail)
    if tv(exy) and tv(eyz):
        ctx.check(tv(exz), key + ":equality-not-transitive", detail)
    for w in (x, y, z):
        o = run_ckl("[w > m, w < n]", {"w": w, "m": mx, "n": mn})
        if o.kind == "ok":
            ctx.check(not tv(o.value.value[0]), key + ":max-of-list-not-maximal", detail)
            ctx.check(not tv(o.value.value[1]), key + ":min-of-list-not-minimal", detail)
    return out


def run_sorted(ctx, cell):
    ctx.reach("sorted")
    n, mode = cell["n"], cell["mode"]
    key = "C07:sorted:" + mode
    keys = [ctx.int("k%d" % i) for i in range(n)]
    if mode == "default":
        # default order on [key, tag] pairs: tags ascending in input order, so that equal keys
        # are already in the order that stability demands AND the list order demands
        items = [vlist([vint(keys[i]), vint(i)]) for i in range(n)]
        text = "sorted(l)"
    else:
        items = [vlist([vint(keys[i]), vint(100 - i)]) for i in range(n)]
        text = {"key": "sorted(l, key = fn(p) p[0])",
                "cmp": "sorted(l, cmp = fn(a, b) compare(a[0], b[0]))",
                "keycmp": "sorted(l, cmp = fn(a, b) compare(b, a), key = fn(p) p[0])"}[mode]
    l = vlist(items)
    out = run_ckl(text, {"l": l})
    detail = lambda: {"keys": [int(k_) for k_ in keys], "got": ctx.plain(out)}
    if out.kind != "ok":
        ctx.fail("%s:%s:%s" % (key, out.kind, out.hostname() or "runtime-error"), detail)
        return out
    res = out.value.value
    if not ctx.check(len(res) == n, key + ":length-changed", detail):
        return out
    # permutation: tags are concrete and distinct
    tags = [p.value[1].value for p in res]
    want = sorted(t.value[1].value for t in items)
    if not ctx.check(sorted(tags) == want, key + ":not-a-permutation", detail):
        return out
    desc = mode == "keycmp"
    for i in range(n - 1):
        a, b = res[i].value[0].value, res[i + 1].value[0].value
        ctx.check((a >= b) if desc else (a <= b), key + ":not-ordered", detail)
        # stability: equal keys keep their input order (input position = tag or 100 - tag)
        pa = tags[i] if mode == "default" else 100 - tags[i]
        pb = tags[i + 1] if mode == "default" else 100 - tags[i + 1]
        if pa > pb:
            ctx.check(a != b, key + ":not-stable", detail)
    # the argument is left alone
    ctx.check(len(l.value) == n, key + ":argument-changed", detail)
    return out


def run_enum(ctx, cell):
    ctx.reach("enum")
    what = cell["what"]
    key = "C07:enum:" + what
    xs = [ctx.int("e%d" % i, 0, 3) for i in range(3)]
    if what.endswith("mix"):
        # ints and decimals together: numeric order across the two representations
        pool = [(vint(1), 2), (vdec(1.5), 3), (vint(2), 4), (vdec(0.5), 1), (vint(-1), -2), (vdec(2.5), 5), (vdec(-3.0), -6)]
        sel = [pool[ctx.choice("m%d" % i, len(pool))] for i in range(3)]
        elems = [v for v, _ in sel]
        xs = [k_ for _, k_ in sel]          # twice the numeric value: order key
        what = what[:-3]
        if what == "set":
            coll = vset(elems)
            text = "def r = []; for x in s do append(r, x) end; [r, [x for x in s], list(s), string(s)]"
        else:
            coll = vmap([(v, vint(7)) for v in elems])
            text = "def r = []; for x in keys s do append(r, x) end; [r, [x for x in keys s], " \
                   "[e[0] for e in entries s], string(set(s))]"
        out = run_ckl(text, {"s": coll})
        detail = lambda: {"elements": [str(v) for v in elems], "got": ctx.plain(out)}
        if out.kind != "ok":
            ctx.fail("%s:%s:%s" % (key, out.kind, out.hostname() or "runtime-error"), detail)
            return out
        for lst in out.value.value[:3]:
            vals = lst.value
            for i in range(len(vals) - 1):
                ctx.check(vals[i] < vals[i + 1], key + ":mixed-numbers-not-ascending", detail)
            ctx.check(len(vals) == len(set(xs)), key + ":wrong-size", detail)
        return out
    if what in ("setseq", "mapseq"):
        # enumerate, change the elements (same size / other size), enumerate again: every enumeration form
        # gives the CURRENT elements in ascending order
        base = [int(x) for x in xs]
        y = base[ctx.choice("y", 3)]
        z = int(ctx.int("z", 0, 4))
        w = (0, 5)[ctx.choice("w", 2)]
        if what == "setseq":
            coll = vset([vint(x) for x in base])
            forms = "[[x for x in s], [...s], list(s), string(s)]"
            text = "def e1 = %s; remove(s, y); append(s, z); def e2 = %s; append(s, w); [e1, e2, %s]" % (forms, forms, forms)
            ren = lambda ks: "<<" + ", ".join(str(k_) for k_ in ks) + ">>"
        else:
            coll = vmap([(vint(x), vint(7)) for x in base])
            forms = "[[x for x in keys s], [...s], [e[0] for e in entries s], string(s)]"
            text = "def e1 = %s; remove(s, y); s[z] = 7; def e2 = %s; s[w] = 7; [e1, e2, %s]" % (forms, forms, forms)
            ren = lambda ks: "<<<" + ", ".join("%d => 7" % k_ for k_ in ks) + ">>>"
        out = run_ckl(text, {"s": coll, "y": vint(y), "z": vint(z), "w": vint(w)})
        k1 = sorted(set(base))
        k2 = sorted((set(base) - {y}) | {z})
        k3 = sorted(set(k2) | {w})
        detail = lambda: {"elements": base, "removed": y, "added": [z, w], "got": ctx.plain(out)}
        if out.kind != "ok":
            ctx.fail("%s:%s:%s" % (key, out.kind, out.hostname() or "runtime-error"), detail)
            return out
        for got, ks in zip(out.value.value, (k1, k2, k3)):
            exp = "[%s, %s, %s, '%s']" % (ks, ks, ks, ren(ks))
            ctx.check(str(got) == exp, key + ":enumeration-after-change-not-the-current-elements-ascending",
                      lambda: dict(detail(), expected=exp, enumeration=str(got)))
        return out
    if what == "set":
        coll = vset([vint(x) for x in xs])
        text = "def r = []; for x in s do append(r, x) end; [r, [x for x in s], list(s), string(s)]"
    else:
        coll = vmap([(vint(x), vint(7)) for x in xs])
        text = "def r = []; for x in keys s do append(r, x) end; [r, [x for x in keys s], " \
               "[e[0] for e in entries s], string(set(s))]"
    out = run_ckl(text, {"s": coll})
    detail = lambda: {"elements": [int(x) for x in xs], "got": ctx.plain(out)}
    if out.kind != "ok":
        ctx.fail("%s:%s:%s" % (key, out.kind, out.hostname() or "runtime-error"), detail)
        return out
    for lst in out.value.value[:3]:
        vals = [v.value for v in lst.value]
        for i in range(len(vals) - 1):
            ctx.check(vals[i] < vals[i + 1], key + ":not-ascending", detail)
        ctx.check(len(vals) == len(set(int(x) for x in xs)), key + ":wrong-size", detail)
    return out
