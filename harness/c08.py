"""C08 -- rendering is canonical and data literals round-trip through print and parse.

str   : strings of length <= 3 (thorough 5) over unconstrained characters, alone and nested in
        list / set / map-key / map-value / nested list shapes: ValueString.__repr__ -> real
        Lexer -> parse -> evaluate must give an equal value of the same type that renders to
        the same text.
int   : symbolic ints (|v| < 10^12) rendered and re-read, alone and nested, negative included.
nest  : container shapes to depth 3 (empty and nested lists/sets/maps) with symbolic int leaves.
order : sets and maps of 3 (thorough 4) distinct symbolic ints built in every insertion order
        render identically.
dec   : decimals -- repr(float) is C code, so this part is a concrete ladder (outside the solver
        claim): every power of ten 1e-10..1e22 times {1, 1.5, -7.25}, neighbours of 2^53, 0.1+0.2."""
import ckl.values as V

from harness.common import run_ckl, vint, vstr, vdec, vlist, vset, vmap, srepr, sstr, raise_site, digits_int

FUNCTIONS = ["ckl.values.ValueString/ValueInt/ValueDecimal/ValueList/ValueSet/ValueMap.__repr__",
             "ckl.lexer.Lexer.scan (string/number states)", "ckl.parser.parse_primary_expr / literals",
             "ckl.nodes.NodeList/NodeSet/NodeMap/NodeLiteral.evaluate"]
OUTSIDE = ["leaves that are hashed (set elements, map keys): strings over a 13-character adversarial "
           "alphabet, one-digit ints", "decimal rendering is checked on a concrete ladder only (repr(float) is C code)",
           "patterns containing // or a backslash; patterns longer than 2 characters", "dates (not literals)", "strings longer than the bound",
           "ints with more than 12 digits in the round-trip cells",
           "sets/maps holding both an int and the equal decimal (see known finding C08:int-decimal-alias)"]
REACH = {"str", "int", "nest", "order", "dec"}

HASHED = {"set", "mapkey", "setinset", "mapsetval"}   # the leaf is hashed: finite leaf domains
ADVERSARIAL = "'\\\"<>#/a\n\t=, "
PATTERN_ALPHABET = "a.\r\n\t #'\"-=1"
SHAPES = ["bare", "list", "set", "mapkey", "mapval", "listlist", "setinset", "mapsetval"]


def bounds(tier):
    q = tier == "quick"
    return {"string_len": 3 if q else 5, "order_elements": 3 if q else 4, "nest_depth": 3,
            "decimal_ladder": 33 * 3 + 6}


def ladder():
    xs = []
    for e in range(-10, 23):
        for m in (1.0, 1.5, -7.25):
            xs.append(m * (10.0 ** e))
    xs += [float(2 ** 53), float(2 ** 53) + 2, float(2 ** 53) - 1, 0.1 + 0.2, 0.0, -0.5]
    return xs


def cells(tier, seed):
    b = bounds(tier)
    out = []
    for n in range(0, b["string_len"] + 1):
        for sh in SHAPES:
            if n > 2 and sh not in ("bare", "list", "mapval"):
                continue
            out.append({"k": "str", "n": n, "shape": sh})
    for sh in SHAPES:
        out.append({"k": "int", "shape": sh})
    for i in range(len(NESTS)):
        out.append({"k": "nest", "i": i})
    for n in range(1, 3):
        for sh in ("bare", "list", "mapkey", "mapsetval"):
            out.append({"k": "pat", "n": n, "shape": sh})
    for what in ("set", "map"):
        out.append({"k": "order", "what": what, "n": b["order_elements"]})
        for first in range(len(mixpool())):
            out.append({"k": "ordermix", "what": what, "first": first})
    lad = ladder()
    for i in range(0, len(lad), 8):
        out.append({"k": "dec", "lo": i, "hi": min(len(lad), i + 8)})
    out.append({"k": "datediff"})
    out.append({"k": "alias"})
    from harness.common import SEQ_SET_OPS, SEQ_MAP_OPS
    for kind, ops in (("set", SEQ_SET_OPS), ("map", SEQ_MAP_OPS)):
        for first in range(len(ops)):
            out.append({"k": "seq", "kind": kind, "first": first, "n": 3 if tier == "quick" else 4})
    return out


def mixpool():
    """values of different kinds (containers among them) that can sit next to each other in a set / as map keys"""
    import ckl.values as V
    return [vset([]), vset([vint(1)]), vmap([]), vset([V.TRUE]), vlist([vint(1)]), vmap([(vint(1), vint(2))]),
            vset([vstr("a")]), vint(5), vstr("<<"), vset([vint(10)]), vset([vint(9)]), vlist([]), V.NULL,
            # containers whose own construction order differs from their sorted order
            vmap([(vint(2), vint(20)), (vint(1), vint(10))]), vset([vint(3), vint(2)])]


def wrap(shape, leaf):
    if shape == "bare":
        return leaf
    if shape == "list":
        return vlist([leaf, vint(1)])
    if shape == "set":
        return vset([leaf])
    if shape == "mapkey":
        return vmap([(leaf, vint(1))])
    if shape == "mapval":
        return vmap([(vint(1), leaf)])
    if shape == "listlist":
        return vlist([vlist([leaf]), vlist([])])
    if shape == "setinset":
        return vset([vset([leaf])])
    if shape == "mapsetval":
        return vmap([(vint(1), vset([leaf]))])
    raise AssertionError(shape)


NESTS = [
    lambda a, b: vlist([]),
    lambda a, b: vset([]),
    lambda a, b: vmap([]),
    lambda a, b: vlist([vlist([]), vset([]), vmap([])]),
    lambda a, b: vset([vset([])]),
    lambda a, b: vset([vset([vint(a)]), vint(b)]),
    lambda a, b: vset([vmap([(vint(a), vint(b))])]),
    lambda a, b: vmap([(vint(a), vmap([(vint(b), vset([]))]))]),
    lambda a, b: vmap([(vset([vint(a)]), vint(b))]),
    lambda a, b: vmap([(vint(a), vset([vint(b)]))]),
    lambda a, b: vlist([vset([vint(a)]), vmap([(vint(b), vlist([vint(a)]))])]),
    lambda a, b: vset([vlist([vint(a), vset([vint(b)])])]),
    lambda a, b: vmap([(vmap([(vint(a), vint(b))]), vint(a))]),
]


def roundtrip(ctx, key, v, detail_extra=None):
    text = srepr(v)
    out = run_ckl(text)
    detail = lambda: {"text": str(text), "got": ctx.plain(out), "extra": detail_extra}
    if out.kind != "ok":
        ctx.fail("%s:rendered-text-does-not-evaluate:%s" % (key, out.kind if out.kind != "host"
                                                            else out.hostname()), detail)
        return out
    r = out.value
    ctx.check(r == v, key + ":value-changed", detail)
    ctx.check(r.type() == v.type(), key + ":type-changed", detail)
    ctx.check(srepr(r) == text, key + ":rendering-not-stable", detail)
    return out


def run(ctx, cell):
    k = cell["k"]
    if k == "str":
        ctx.reach("str")
        s = ctx.str("s", cell["n"])
        if cell["shape"] in HASHED:
            for ch in list(s):
                c = False
                for a in ADVERSARIAL:
                    c = c | (ch == a)
                ctx.assume(c)
        v = wrap(cell["shape"], vstr(s))
        return roundtrip(ctx, "C08:str:" + cell["shape"], v)
    if k == "pat":
        # pattern values: text over an alphabet of valid regex fragments (no "//", no lone backslash)
        ctx.reach("str")
        s = ctx.str("s", cell["n"])
        for ch in list(s):
            c = False
            for a in PATTERN_ALPHABET:
                c = c | (ch == a)
            ctx.assume(c)
        import ckl.values as V
        v = wrap(cell["shape"], V.ValuePattern(str(s)))
        return roundtrip(ctx, "C08:pat:" + cell["shape"], v)
    if k == "int":
        ctx.reach("int")
        x = digits_int(ctx, "x", 1 if cell["shape"] in HASHED else 12)
        v = wrap(cell["shape"], vint(x))
        out = roundtrip(ctx, "C08:int:" + cell["shape"], v)
        if cell["shape"] == "bare" and out.kind == "ok":
            ctx.check(out.value.isInt(), "C08:int:not-an-int")
        return out
    if k == "nest":
        ctx.reach("nest")
        a, b = ctx.int("a", -2, 2), ctx.int("b", 7, 9)
        v = NESTS[cell["i"]](a, b)
        return roundtrip(ctx, "C08:nest:%d" % cell["i"], v)
    if k == "order":
        ctx.reach("order")
        n = cell["n"]
        xs = [ctx.int("x%d" % i, -2, 2) for i in range(n)]
        for i in range(n):
            for j in range(i + 1, n):
                ctx.assume(xs[i] != xs[j])
        perm = ctx.perm("p", n)
        ident = list(range(n))
        if cell["what"] == "set":
            a = vset([vint(xs[i]) for i in ident])
            b = vset([vint(xs[i]) for i in perm])
        else:
            a = vmap([(vint(xs[i]), vint(i)) for i in ident])
            b = vmap([(vint(xs[i]), vint(i)) for i in perm])
        ra, rb = srepr(a), srepr(b)
        ctx.check(ra == rb, "C08:order:%s:rendering-depends-on-construction-order" % cell["what"],
                  lambda: {"a": str(ra), "b": str(rb)})
        return roundtrip(ctx, "C08:order:" + cell["what"], b)
    if k == "ordermix":
        ctx.reach("order")
        p = mixpool()
        i0 = cell["first"]
        i1 = ctx.choice("b", len(p))
        i2 = ctx.choice("c", len(p))
        if i1 <= i0 or i2 <= i1:
            return ["dup"]
        els = [p[i0], p[i1], p[i2]]
        perm = ctx.perm("p", 3)
        if cell["what"] == "set":
            a, b = vset(els), vset([els[i] for i in perm])
        else:
            a, b = vmap([(e, vint(i)) for i, e in enumerate(els)]), vmap([(els[i], vint(i)) for i in perm])
        ra, rb = srepr(a), srepr(b)
        ctx.check(ra == rb, "C08:ordermix:%s:rendering-depends-on-construction-order" % cell["what"],
                  lambda: {"a": str(ra), "b": str(rb)})
        if cell["what"] == "map" and any(e.isNull() for e in els):
            # a NULL key is rendered as the bare word NULL, which a map literal reads as the string 'NULL'
            out = run_ckl(str(rb))
            ok = out.kind == "ok" and out.value == b
            ctx.check(ok, "C08:mapkey-null:rendered-key-NULL-reads-back-as-string",
                      lambda: {"text": str(rb), "got": ctx.plain(out)})
            return out
        return roundtrip(ctx, "C08:ordermix:" + cell["what"], b)
    if k == "dec":
        ctx.reach("dec")
        lad = ladder()
        res = []
        for x in lad[cell["lo"]:cell["hi"]]:
            v = vdec(x)
            text = repr(v)
            ok = "." in text and all(c in "-0123456789." for c in text)
            ctx.check(ok, "C08:dec:not-a-numeral-with-fractional-part", {"x": repr(x), "text": text})
            out = run_ckl(text)
            if out.kind != "ok":
                ctx.fail("C08:dec:rendered-text-does-not-evaluate", {"x": repr(x), "text": text})
                continue
            ctx.check(out.value.isDecimal() and out.value.value == x, "C08:dec:value-changed",
                      {"x": repr(x), "text": text, "got": str(out.value)})
            res.append(text)
        return res
    if k == "seq":
        ctx.reach("order")
        from harness.common import SEQ_SET_OPS, SEQ_MAP_OPS, seq_model
        kind = cell["kind"]
        allops = SEQ_SET_OPS if kind == "set" else SEQ_MAP_OPS
        idx = [cell["first"]] + [ctx.choice("op%d" % i, len(allops)) for i in range(1, cell["n"])]
        ops = [allops[i] for i in idx]
        var = "s" if kind == "set" else "m"
        init = "def s = <<1, 3, 4>>" if kind == "set" else "def m = <<<1 => 'x', 3 => 'y', 4 => 'z'>>>"
        prog = init + "; " + "; ".join("do %s catch all NULL end" % o for o in ops) + "; [string(%s), %s]" % (var, var)
        out = run_ckl(prog)
        model = seq_model(kind, ops)
        if kind == "set":
            fresh = vset([vint(x) for x in model])
        else:
            fresh = vmap([(vint(a), vstr(b)) for a, b in model])
        detail = {"program": prog, "got": ctx.plain(out), "expected": str(fresh)}
        if out.kind != "ok":
            ctx.fail("C08:seq:%s:%s" % (kind, out.kind), detail)
            return out
        text, val = out.value.value
        ctx.check(val == fresh, "C08:seq:%s:value-differs-from-model" % kind, detail)
        ctx.check(text.value == str(fresh), "C08:seq:%s:rendering-does-not-depend-only-on-the-value" % kind, detail)
        return out
    if k == "alias":
        ctx.reach("order")
        pairs = [(vint(1), vdec(1.0)), (vint(0), vdec(0.0)), (vint(2 ** 53), vdec(float(2 ** 53))),
                 (vint(-3), vdec(-3.0))]
        a, b = pairs[ctx.choice("pair", len(pairs))]
        what = ("set", "mapkey")[ctx.choice("what", 2)]
        if what == "set":
            x, y = vset([a, b]), vset([b, a])
        else:
            x, y = vmap([(a, vint(7)), (b, vint(7))]), vmap([(b, vint(7)), (a, vint(7))])
        if x == y:
            ctx.check(repr(x) == repr(y),
                      "C08:alias:%s-of-int-and-equal-decimal-renders-by-insertion-order" % what,
                      {"first": repr(x), "second": repr(y)})
        return [repr(x), repr(y)]
    if k == "datediff":
        ctx.reach("int")
        out = run_ckl("[date('20170405') - date('20170402'), string(date('20170405') - date('20170402')), "
                      "type(date('20170405') - date('20170402'))]")
        if out.kind != "ok":
            ctx.fail("C08:datediff:" + out.kind, str(out.exc))
            return out
        d, s, t = out.value.value
        if t.value == "int":
            ctx.check(s.value == "3", "C08:datediff:int-renders-as-decimal", {"text": s.value})
        return out
    raise AssertionError(k)
