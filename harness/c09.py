"""C09 -- secure mode denies file, process and script-loading access to every program.

binder : bind_native(name) / bind_native(name, alias) through the interpreter with the native
         name symbolic over every native name the binder knows plus an unknown one, the alias
         over several spellings, the secure and legacy constructor flags symbolic.  In every path
         with secure mode on, no function value reachable afterwards may be OS-touching, and
         `run` is unbound.  "OS-touching" is computed from the source (AST scan of each built-in
         class for open / subprocess / shutil / FileInput / FileOutput / os.* outside an allow
         list / interpreter access), not read from the `secure` flag.
flag   : every syntactic way of defining or assigning a name, with the identifier chosen from
         {a, checkerlang_secure_mode, checkerlang_x}: after running the program in a secure
         interpreter the binder must still refuse OS natives and module code must still see TRUE.
closure: (concrete graph walk, outside the solver claim) every value reachable from a secure
         interpreter's environments, modules, objects and closures, in both base environments."""
import ast
import os

import ckl.functions as F
import ckl.values as V
from ckl.interpreter import Interpreter

from harness.common import run_ckl, vstr, guard, fresh_interp

FUNCTIONS = ["ckl.functions.get_base_environment", "ckl.functions.bind_native", "ckl.functions.bind_native_fun",
             "ckl.functions.FuncBindNative.execute", "ckl.interpreter.Interpreter.__init__",
             "ckl.nodes.NodeAssign/NodeAssignDestructuring/NodeDef (system variable guard)", "modules/io.ckl, os.ckl guards"]
OUTSIDE = ["that no OS call happens is an observation of a running process (audit hooks), not a solver question",
           "the reachable-value closure is a concrete graph walk", "OS-touching classification is syntactic "
           "(one class body; helpers called across classes are not followed)"]
REACH = {"binder", "flag", "closure"}

ALLOWED_OS = {"os.path.sep", "os.linesep", "os.path.pathsep", "os.environ", "os.sep", "os.pathsep",
              "os.path.basename", "os.path.dirname", "os.path.splitext", "os.path.join", "os.environ.get"}

_OS_CLASSES = None
_NATIVES = None


def _dotted(n):
    parts = []
    while isinstance(n, ast.Attribute):
        parts.append(n.attr)
        n = n.value
    if isinstance(n, ast.Name):
        parts.append(n.id)
        return ".".join(reversed(parts))
    return None


def os_touching_classes():
    """names of built-in classes whose methods can touch files, processes or load scripts"""
    global _OS_CLASSES
    if _OS_CLASSES is None:
        tree = ast.parse(open(F.__file__).read())
        out = set()
        for node in tree.body:
            if not isinstance(node, ast.ClassDef):
                continue
            bad = False
            for sub in ast.walk(node):
                if isinstance(sub, ast.Call):
                    f = sub.func
                    if isinstance(f, ast.Name) and f.id in ("open", "FileInput", "FileOutput", "exec", "eval", "__import__"):
                        bad = True
                    d = _dotted(f) if isinstance(f, ast.Attribute) else None
                    if d:
                        if d.split(".")[0] in ("subprocess", "shutil"):
                            bad = True
                        if d.startswith("os.") and d not in ALLOWED_OS:
                            bad = True
                        if ".interpreter." in "." + d + "." or d.endswith("interpreter.interpret") \
                                or d.endswith("interpreter.loadFile"):
                            bad = True
            if bad:
                out.add(node.name)
        _OS_CLASSES = out
    return _OS_CLASSES


def native_names():
    global _NATIVES
    if _NATIVES is None:
        tree = ast.parse(open(F.__file__).read())
        names = []
        for node in ast.walk(tree):
            if isinstance(node, ast.FunctionDef) and node.name == "bind_native":
                for sub in ast.walk(node):
                    if isinstance(sub, ast.Compare) and isinstance(sub.left, ast.Name) and sub.left.id == "native":
                        for c in sub.comparators:
                            if isinstance(c, ast.Constant) and isinstance(c.value, str):
                                names.append(c.value)
        _NATIVES = sorted(set(names)) + ["no_such_native", "run", "FuncRun", "file_input "]
    return _NATIVES


ALIASES = [None, "my_alias", "println", "checkerlang_secure_mode", "run"]
CHUNK = 12

FLAG_FORMS = [
    "X = FALSE", "X += 1", "[X, y] = [FALSE, 1]", "def X = FALSE", "def [X, y] = [FALSE, 1]",
    "for X in [FALSE] do 1 end", "def f(X) X; f(FALSE)", "require Math as X", "def f(X = FALSE) X; f()",
    "(fn(X) X)(FALSE)", "[1 for X in [FALSE]]", "def X(a) FALSE", "<*X = FALSE*>", "require Math import [PI as X]",
    "X->y = FALSE", "X[0] = FALSE", "def class X do def m(self) 1 end", "do error 1 catch all X = FALSE end",
    "def o = <*v = 1*>; o->X = FALSE", "while FALSE do X = FALSE end; eval('X = FALSE')", "eval('def X = FALSE')",
    "parse('X = FALSE')", "bind_native('println', 'X')", "put(<<<>>>, 'X', FALSE)", "def g() do X = FALSE end; g()",
    # compound assignments: with a NULL operand the arithmetic yields NULL (falsy)
    "X += NULL", "X -= NULL", "X *= NULL", "X /= NULL", "X %= NULL", "eval('X += NULL')", "def g() do X -= NULL end; g()",
    "X *= 0", "X -= 1", "X /= 2", "X %= 1", "X += ''", "X += []", "for i in [1] do X *= NULL end",
]
IDENTS = ["a", "checkerlang_secure_mode", "checkerlang_x"]
OS_NATIVES = ["file_input", "file_output", "file_delete", "make_dir", "execute", "list_dir", "file_exists",
              "file_copy", "file_move", "file_info", "which", "run"]


def bounds(tier):
    return {"native_names": len(native_names()), "aliases": len(ALIASES), "flag_forms": len(FLAG_FORMS)}


def cells(tier, seed):
    out = []
    n = len(native_names())
    for lo in range(0, n, CHUNK):
        for ai in range(len(ALIASES)):
            out.append({"k": "binder", "lo": lo, "hi": min(n, lo + CHUNK), "alias": ai})
    for i in range(len(FLAG_FORMS)):
        out.append({"k": "flag", "i": i})
    for legacy in (0, 1):
        out.append({"k": "closure", "legacy": legacy})
    for first_legacy in (0, 1):
        for sec_legacy in (0, 1):
            for prog in range(5):
                for p0 in range(7):
                    out.append({"k": "sequence", "first_legacy": first_legacy, "legacy": sec_legacy,
                                "prog": prog, "pre0": p0})
    return out


def reachable_values(it, extra_envs=()):
    """every language value reachable from the interpreter's environments"""
    seen_v, seen_e = {}, set()
    stack = [it.environment, it.base_environment] + list(extra_envs)

    def push_value(v):
        if isinstance(v, V.Value) and id(v) not in seen_v:
            seen_v[id(v)] = v
            vals.append(v)
    vals = []
    while stack or vals:
        while vals:
            v = vals.pop()
            if isinstance(v, (V.ValueList,)):
                for x in v.value:
                    push_value(x)
            elif isinstance(v, V.ValueSet):
                for x in v.value:
                    push_value(x)
            elif isinstance(v, V.ValueMap):
                for k, x in v.value.items():
                    push_value(k)
                    push_value(x)
            elif isinstance(v, V.ValueObject):
                for x in v.value.values():
                    push_value(x)
            le = getattr(v, "lexicalEnv", None)
            if le is not None:
                stack.append(le)
        if stack:
            e = stack.pop()
            while e is not None and id(e) not in seen_e:
                seen_e.add(id(e))
                for x in e.map.values():
                    push_value(x)
                if e.parent is None:
                    for me in getattr(e, "modules", {}).values():
                        stack.append(me)
                e = e.parent
    return list(seen_v.values())


def insecure_reachable(it, extra_envs=()):
    bad = os_touching_classes()
    out = []
    for v in reachable_values(it, extra_envs):
        if v.isFunc() and type(v).__name__ in bad:
            out.append(type(v).__name__)
    return sorted(set(out))


def run(ctx, cell):
    k = cell["k"]
    if k == "binder":
        return run_binder(ctx, cell)
    if k == "flag":
        return run_flag(ctx, cell)
    if k == "closure":
        ctx.reach("closure")
        it = Interpreter(True, bool(cell["legacy"]))
        # load every bundled module as well
        mods = [f[:-4] for f in sorted(os.listdir(os.path.join(os.path.dirname(F.__file__), "modules")))
                if f.endswith(".ckl")]
        for m in mods:
            guard(it.interpret, "require %s" % m.capitalize(), "closure")
            guard(it.interpret, "require %s" % m, "closure")
        bad = insecure_reachable(it)
        ctx.check(not bad, "C09:closure:os-touching-function-reachable-in-secure-mode", {"classes": bad})
        ctx.check(not it.environment.isDefined("run"), "C09:closure:run-bound-in-secure-mode")
        return [bad]
    if k == "sequence":
        # a non-secure interpreter lives (and loads modules) in the same process BEFORE the secure one.
        # Process-global state is the subject, so every sequence runs in a fresh process.
        ctx.reach("closure")
        second = ctx.choice("pre1", len(SEQ_PRE) + 1)
        res = run_sequence_process(cell["first_legacy"], cell["legacy"], cell["pre0"], second, cell["prog"])
        ctx.check(res.get("ok") is True, "C09:sequence:harness-process-failed", res)
        if res.get("ok"):
            ctx.check(not res["bad"], "C09:sequence:secure-interpreter-reaches-os-functions-loaded-by-an-earlier-one",
                      {"classes": res["bad"]})
            for t, kind in res["probes"].items():
                ctx.check(kind != "ok", "C09:sequence:os-access-from-secure-interpreter[%s]" % t, res)
        return [res.get("bad")]
    raise AssertionError(k)


SEQ_PRE = ["require IO", "require OS", "require Sys", "bind_native('file_input')", "def leak = file_input",
           "require IO unqualified", "require OS import [execute]"]
SEQ_PROGS = ["require IO", "require OS", "require IO unqualified", "require OS unqualified", "1"]
SEQ_PROBES = ("IO->file_input('/etc/hostname')", "OS->execute('true')", "file_input('/etc/hostname')",
              "IO->read_file('/etc/hostname')", "leak", "OS->file_exists('/etc')", "list_dir('/')")


def sequence_main(argv):
    """runs inside a fresh /venv/bin/python process (pristine ckl): prints one JSON line"""
    import json
    fl, sl, p0, p1, prog = [int(x) for x in argv]
    unsec = Interpreter(False, bool(fl))
    unsec.setStandardOutput(V.StringOutput())
    guard(unsec.interpret, SEQ_PRE[p0], "pre")
    if p1 < len(SEQ_PRE):
        guard(unsec.interpret, SEQ_PRE[p1], "pre")
    it = Interpreter(True, bool(sl))
    it.setStandardOutput(V.StringOutput())
    guard(it.interpret, SEQ_PROGS[prog], "secure")
    bad = insecure_reachable(it)
    probes = {}
    for t in SEQ_PROBES:
        o = guard(it.interpret, t, "secure")
        probes[t] = "ok" if (o.kind == "ok" and not o.value.isNull()) else o.kind
    print(json.dumps({"ok": True, "bad": bad, "probes": probes}))


def run_sequence_process(fl, sl, p0, p1, prog):
    import json
    import subprocess
    import symex.loader as L
    env = dict(os.environ)
    verif = os.path.dirname(os.path.dirname(os.path.abspath(__file__)))
    env["PYTHONPATH"] = verif + os.pathsep + os.path.join(L.repo_root(), "src")
    code = "import sys; import harness.c09 as h; h.sequence_main(sys.argv[1:])"
    try:
        p = subprocess.run(["/venv/bin/python", "-c", code, str(fl), str(sl), str(p0), str(p1), str(prog)],
                           env=env, capture_output=True, text=True, timeout=60)
        return json.loads(p.stdout.strip().splitlines()[-1])
    except Exception as e:
        return {"ok": False, "error": repr(e)}


def run_binder(ctx, cell):
    ctx.reach("binder")
    names = native_names()[cell["lo"]:cell["hi"]]
    name = ctx.enum("name", names)
    alias = ALIASES[cell["alias"]]
    secure = ctx.bool("secure")
    legacy = ctx.bool("legacy")
    it = Interpreter(secure, legacy)
    it.setStandardOutput(V.StringOutput())
    env = {"n": vstr(name)}
    text = "bind_native(n)" if alias is None else "bind_native(n, '%s')" % alias
    from ckl.functions import get_none_environment
    e = get_none_environment()
    e.put("n", vstr(name))
    out = guard(it.interpret, text, "binder", e)
    sec = True if secure else False
    detail = lambda: {"native": str(name), "alias": alias, "secure": sec, "legacy": True if legacy else False,
                      "outcome": out.kind}
    if out.kind == "host":
        ctx.fail("C09:binder:host-exception:" + out.hostname(), detail)
        return [out.kind]
    if sec:
        bad = insecure_reachable(it, [e])
        ctx.check(not bad, "C09:binder:os-touching-function-bound-in-secure-mode",
                  lambda: dict(detail(), classes=bad))
        ctx.check(not it.environment.isDefined("run") and not e.isDefined("run") or
                  (e.isDefined("run") and type(e.get("run")).__name__ not in os_touching_classes()),
                  "C09:binder:run-bound-in-secure-mode", detail)
        flag = it.base_environment.get("checkerlang_secure_mode")
        ctx.check(flag == V.TRUE, "C09:binder:secure-flag-changed", detail)
    return [out.kind, sec]


def run_flag(ctx, cell):
    ctx.reach("flag")
    form = FLAG_FORMS[cell["i"]]
    ident = IDENTS[ctx.choice("ident", len(IDENTS))]
    text = form.replace("X", ident)
    it = fresh_interp(True, bool(ctx.choice("legacy", 2)))
    out = guard(it.interpret, text, "flag")
    key = "C09:flag[%s]" % form
    detail = {"program": text, "outcome": out.kind}
    if out.kind == "host":
        ctx.fail(key + ":host-exception:" + out.hostname(), detail)
        return [out.kind]
    for osn in OS_NATIVES:
        guard(it.interpret, "bind_native('%s')" % osn, "flag")
        guard(it.interpret, "bind_native('%s', 'sneaky')" % osn, "flag")
    bad = insecure_reachable(it)
    ctx.check(not bad, key + ":os-native-bound-after-program", dict(detail, classes=bad))
    ctx.check(it.base_environment.get("checkerlang_secure_mode") == V.TRUE, key + ":secure-flag-switched-off", detail)
    o2 = guard(it.interpret, "require IO; IO->read_file('/etc/hostname')", "flag")
    ctx.check(o2.kind != "ok", key + ":module-code-reads-files-after-program", dict(detail, result=str(o2.value)))
    o3 = guard(it.interpret, "def r = 0; if checkerlang_secure_mode then r = 1; require OS; r", "flag")
    return [out.kind, o2.kind]
