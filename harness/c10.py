"""C10 -- interpreter sessions keep definitions and survive failed calls unchanged.

Histories of k commands (k <= 3 quick, 4 thorough; every command chosen by a symbolic selector, so
the exploration is exhaustive over the alphabet^k) issued through Interpreter.interpret to one or
to two interleaved interpreter instances; user modules are real files on a scratch module path.
Every call's result or error is compared with a reference session model (dictionary of
definitions per instance, set of loaded modules); repeating a failed call must give the same
error; instances never see each other.  step: after every require outcome (good, missing, broken,
syntactically broken, circular, nested failure) the module load stack must be empty again and the
module cached iff its body completed (one inductive step covers histories of any length)."""
import ckl.values as V
from ckl.errors import CklRuntimeError, CklSyntaxError

from harness import modfix
from harness.common import guard, vint

FUNCTIONS = ["ckl.interpreter.Interpreter.interpret", "ckl.nodes.NodeRequire.evaluate",
             "ckl.functions.Environment.pushModuleStack/popModuleStack/getModules/put/set/get",
             "ckl.nodes.NodeDef/NodeAssign/NodeFor/NodeBlock"]
OUTSIDE = ["quick tier: the last command of a 3-command history is one of 15 observer commands",
           "thorough tier: 3-command histories over the whole alphabet; 4-command histories are first command (any), two of 17 "
           "state-changing commands, one of 15 observers", "histories longer than the bound (the unit step argues for the module stack only)",
           "more than two interpreter instances", "random long histories"]
REACH = {"history", "step"}

# (text, kind) -- the model below gives the expected outcome
CMDS = [
    "def a = 1", "def a = 5", "a = a + 1", "a", "def f(x) x + a", "f(2)", "1 / 0", "undefined_zz",
    "def b = 5; undefined_zz; def c = 6", "[b, c]", "def )", "a +", "require good; good->inc()", "good->get()",
    "require missing_mod", "require broken", "broken->before_failure", "require badsyntax", "require cyc_a",
    "require needs_broken", "for i in [1, 2, 3] do def qq = i; if i == 2 then error 'stop' end", "qq",
    "require other; other->via_good()", "length(load_log)",
    # class definitions: a definition whose member initialiser fails defines (and redefines) nothing
    "def class K do def v = 10; def get(self) self->v end; 'k'",
    "def class K do def v = 20; def w = undefined_zz; def get(self) 0 end; 'k2'", "K->get()",
    "def class G do def low = 1; def high = error 'boom' end", "G->low",
    # the locals of a call (also of a function without parameters) live in the call's own frame: a successful
    # call leaves the session's definitions alone, a failed one leaves nothing behind
    "def z0() do def a = 100; def zloc = 1; a end", "z0()",
    "def e0() do def zloc = 5; error 'boom' end; e0()", "zloc",
]


# commands that observe the session state (quick tier: the last command of a history is one of these)
OBSERVERS = ["a", "f(2)", "[b, c]", "good->get()", "qq", "length(load_log)", "require broken", "require cyc_a",
             "require good; good->inc()", "require needs_broken", "require other; other->via_good()", "a = a + 1",
             "K->get()", "G->low", "zloc"]


# commands that change the session (thorough tier: the middle commands of a 4-command history)
MUTATORS = ["def a = 1", "def a = 5", "a = a + 1", "def f(x) x + a", "def b = 5; undefined_zz; def c = 6",
            "require good; good->inc()", "require broken", "require cyc_a", "require needs_broken",
            "for i in [1, 2, 3] do def qq = i; if i == 2 then error 'stop' end", "require other; other->via_good()",
            "def class K do def v = 10; def get(self) self->v end; 'k'",
            "def class K do def v = 20; def w = undefined_zz; def get(self) 0 end; 'k2'",
            "def class G do def low = 1; def high = error 'boom' end", "def )", "require badsyntax", "z0()"]


def bounds(tier):
    return {"history_length": 3 if tier == "quick" else 4, "two_instance_history_length": 2 if tier == "quick" else 3,
            "alphabet": len(CMDS)}


def cells(tier, seed):
    b = bounds(tier)
    out = []
    for first in range(len(CMDS)):
        out.append({"k": "history", "first": first, "n": b["history_length"], "instances": 1, "tier": tier})
        out.append({"k": "history", "first": first, "n": b["two_instance_history_length"], "instances": 2, "tier": tier})
        if tier != "quick":
            out.append({"k": "history", "first": first, "n": 3, "instances": 1, "tier": tier})
    for m in ["good", "missing_mod", "broken", "badsyntax", "cyc_a", "selfreq", "needs_broken", "other", "third"]:
        out.append({"k": "step", "module": m})
    return out


class Model:
    """reference session: what each command must return"""
    E = ("err", "ERROR")

    def __init__(self):
        self.d = {}
        self.loaded = []          # modules whose body ran (load_log)
        self.modules = set()      # module objects bound in the session
        self.good_count = 0

    def load(self, name):
        """effect of `require name` on the load log; returns error or None"""
        if name == "good":
            if "good" not in self.loaded:
                self.loaded.append("good")
            return None
        if name == "other":
            if "other" not in self.loaded:
                self.loaded.append("other")
                self.load("good")
            return None
        if name == "broken":
            self.loaded.append("broken")          # body starts every time, fails every time
            return self.E
        if name == "needs_broken":
            self.loaded.append("needs_broken")
            self.load("broken")
            return self.E
        if name == "cyc_a":
            self.loaded.append("cyc_a")
            self.loaded.append("cyc_b")
            return self.E
        if name == "badsyntax":
            return ("syn",)
        return self.E                               # missing

    def run(self, cmd):
        d = self.d
        if cmd == "def a = 1":
            d["a"] = 1
            return ("ok", "1")
        if cmd == "def a = 5":
            d["a"] = 5
            return ("ok", "5")
        if cmd == "a = a + 1":
            if "a" not in d:
                return self.E
            d["a"] += 1
            return ("ok", str(d["a"]))
        if cmd == "a":
            return ("ok", str(d["a"])) if "a" in d else self.E
        if cmd == "def f(x) x + a":
            d["f"] = True
            return ("ok", "<#f>")
        if cmd == "f(2)":
            if "f" not in d or "a" not in d:
                return self.E
            return ("ok", str(2 + d["a"]))
        if cmd in ("1 / 0", "undefined_zz"):
            return self.E
        if cmd == "def b = 5; undefined_zz; def c = 6":
            d["b"] = 5
            return self.E
        if cmd == "[b, c]":
            return ("ok", "[%d, %d]" % (d["b"], d["c"])) if "b" in d and "c" in d else self.E
        if cmd in ("def )", "a +"):
            return ("syn",)
        if cmd == "require good; good->inc()":
            self.load("good")
            self.modules.add("good")
            self.good_count += 1
            return ("ok", str(self.good_count))
        if cmd == "good->get()":
            return ("ok", str(self.good_count)) if "good" in self.modules else self.E
        if cmd == "require missing_mod":
            return self.E
        if cmd == "require broken":
            return self.load("broken")
        if cmd == "broken->before_failure":
            return self.E
        if cmd == "require badsyntax":
            return ("syn",)
        if cmd == "require cyc_a":
            return self.load("cyc_a")
        if cmd == "require needs_broken":
            return self.load("needs_broken")
        if cmd.startswith("for i in"):
            d["qq"] = 2
            return ("err", "stop")
        if cmd == "qq":
            return ("ok", str(d["qq"])) if "qq" in d else self.E
        if cmd == "require other; other->via_good()":
            self.load("other")
            self.modules.add("other")
            self.good_count += 1
            return ("ok", str(self.good_count))
        if cmd.startswith("def class K do def v = 10"):
            d["K"] = 10
            return ("ok", "'k'")
        if cmd.startswith("def class K do def v = 20"):
            return self.E
        if cmd == "K->get()":
            return ("ok", str(d["K"])) if "K" in d else self.E
        if cmd.startswith("def class G"):
            return ("err", "boom")
        if cmd == "G->low":
            return self.E
        if cmd.startswith("def z0()"):
            d["z0"] = True
            return ("ok", "<#z0>")
        if cmd == "z0()":
            return ("ok", "100") if "z0" in d else self.E
        if cmd.startswith("def e0()"):
            d["e0"] = True
            return ("err", "boom")
        if cmd == "zloc":
            return self.E
        if cmd == "length(load_log)":
            return ("ok", str(len(self.loaded)))
        raise AssertionError(cmd)


def outcome(out):
    if out.kind == "ok":
        return ("ok", str(out.value))
    if out.kind == "rt":
        return ("err", str(out.exc.value.value) if isinstance(out.exc.value, V.ValueString) else str(out.exc.value))
    if out.kind == "syn":
        return ("syn",)
    return ("host", out.hostname())


def run(ctx, cell):
    if cell["k"] == "step":
        return run_step(ctx, cell)
    ctx.reach("history")
    n, ni = cell["n"], cell["instances"]
    sessions = [modfix.new_session() for _ in range(ni)]
    models = [Model() for _ in range(ni)]
    hist = []
    for step in range(n):
        if step == 0:
            ci = cell["first"]
        elif step == n - 1 and n >= 3 and (cell.get("tier") == "quick" or n >= 4 or ni == 2):
            ci = CMDS.index(OBSERVERS[ctx.choice("c%d" % step, len(OBSERVERS))])
        elif n >= 4:
            ci = CMDS.index(MUTATORS[ctx.choice("c%d" % step, len(MUTATORS))])
        else:
            ci = ctx.choice("c%d" % step, len(CMDS))
        inst = 0 if (ni == 1 or step == 0) else ctx.choice("i%d" % step, ni)
        cmd = CMDS[ci]
        it, log = sessions[inst]
        out = guard(it.interpret, cmd, "cmd%d" % step)
        got = outcome(out)
        exp = models[inst].run(cmd)
        hist.append([inst, cmd, list(got)])
        detail = {"history": [list(h) for h in hist], "expected": list(exp)}
        if got[0] == "host":
            ctx.fail("C10:history:host-exception:%s" % got[1], detail)
            return hist
        ok = ctx.check(got[0] == exp[0], "C10:history:outcome-kind[%s]" % cmd, detail)
        if ok and exp[0] in ("ok", "err"):
            ctx.check(got[1] == exp[1], "C10:history:result[%s]" % cmd, detail)
        # the load stack is empty between calls
        ctx.check(len(it.base_environment.modulestack) == 0, "C10:history:module-load-stack-not-empty-after[%s]" % cmd,
                  detail)
        # repeating a failed command gives the same outcome
        if got[0] in ("err", "syn") and cmd not in ("def b = 5; undefined_zz; def c = 6",):
            again = outcome(guard(it.interpret, cmd, "cmd%d" % step))
            models[inst].run(cmd)
            ctx.check(list(again) == list(got), "C10:history:repeated-failure-differs[%s]" % cmd,
                      dict(detail, again=list(again)))
    return hist


def run_step(ctx, cell):
    ctx.reach("step")
    m = cell["module"]
    it, log = modfix.new_session()
    pre = ctx.choice("preloaded", 2)
    if pre:
        guard(it.interpret, "require good", "pre")
    before = set(it.base_environment.modules.keys())
    out = guard(it.interpret, "require " + m, "step")
    key = "C10:step:" + m
    detail = {"module": m, "outcome": list(outcome(out)), "stack": list(it.base_environment.modulestack),
              "cached": sorted(it.base_environment.modules.keys())}
    if out.kind == "host":
        ctx.fail(key + ":host-exception:" + out.hostname(), detail)
        return detail
    ctx.check(len(it.base_environment.modulestack) == 0, key + ":module-load-stack-not-restored", detail)
    cached = set(it.base_environment.modules.keys()) - before
    completed = {"good": {"good"}, "other": {"other", "good"}, "third": {"third", "other", "good"}}.get(m, set())
    ctx.check(cached == completed - before, key + ":cache-does-not-match-completed-bodies", detail)
    again = guard(it.interpret, "require " + m, "step")
    ctx.check(list(outcome(again)) == list(outcome(out)), key + ":second-require-differs",
              dict(detail, again=list(outcome(again))))
    return detail
