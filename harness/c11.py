"""C11 -- require binds exactly the requested names and evaluates each module once.

bind   : the binding half of NodeRequire.evaluate with a pre-seeded module cache: the module
         environment's symbol table is up to 4 names drawn by symbolic selectors from a pool
         (public, `_private`, `__dunder`, a nested module object), the import form is symbolic
         (qualified / as / unqualified / import [x as y, ...] with symbolic membership and
         aliases).  The importer's scope must change by exactly the requested names.
graphs : importer programs (sequences of import statements chosen by symbolic selectors, with
         repetition) over a fixed set of user modules on a real module path (chain, diamond,
         2-cycle, self-require, private/public mix): each module body runs at most once per
         interpreter, importers share one instance, module code cannot see the importer's
         variables, cycles are errors."""
import ckl.values as V
from ckl.functions import Environment
from ckl.lexer import SourcePos
import ckl.nodes as N

from harness import modfix
from harness.common import guard, vint, vstr, run_ckl

FUNCTIONS = ["ckl.nodes.NodeRequire.evaluate", "ckl.parser.parse_statement (require forms)",
             "ckl.functions.Environment.getModules/pushModuleStack/popModuleStack/getLocalSymbols"]
OUTSIDE = ["module graphs are concrete files", "more than 4 symbols per module in the unit part",
           "importer programs longer than the bound"]
REACH = {"bind", "graphs"}

POOL = ["a", "b_", "_p", "__q", "Sub", "z9", "obj", "lst"]     # Sub is bound to a module object, obj to a plain
#                                                                object (public data like any other), lst to a list
FORMS = ["qualified", "as", "unqualified", "import"]

IMPORTS = [
    "require good", "require good as g2", "require good unqualified", "require good import [inc as bump, pub]",
    "require other", "require third", "require shadow unqualified", "require shadow import [pub as spub]",
    "require cyc_a", "require selfreq", "require good import [_count as leaked]", "require good import [nope]",
]
PROBES = ("[good->inc(), good->get()]", "g2->get()", "[inc(), get()]", "[bump(), pub]", "other->via_good()",
          "third->both()", "pub", "spub", "leaked", "_count", "__hidden", "good->_count", "good->__hidden",
          "good->peek_importer()", "other->good", "length(load_log)")


def bounds(tier):
    return {"module_symbols": 3 if tier == "quick" else 4, "import_statements": 2 if tier == "quick" else 3,
            "import_forms": len(IMPORTS)}


def cells(tier, seed):
    b = bounds(tier)
    out = []
    for form in FORMS:
        for n in range(0, b["module_symbols"] + 1):
            if n >= 3:          # split by the first symbol (parallelism only; the union is the same set of paths)
                for s0 in range(len(POOL)):
                    out.append({"k": "bind", "form": form, "n": n, "s0": s0})
            else:
                out.append({"k": "bind", "form": form, "n": n})
    for first in range(len(IMPORTS)):
        out.append({"k": "graphs", "first": first, "n": b["import_statements"]})
    for first in range(len(RE_FIRST)):
        out.append({"k": "rerequire", "first": first})
    return out


# a module required again after its state changed / after an importer wrote to its module object
RE_FIRST = ["require state", "require state as s1", "require uses_state; require state"]
RE_ACTS = ["1", "S->bump()", "S->bump(); S->bump(); S->bump()", "S->counter = -1", "S->extra = 5",
           "S->bump(); S->extra = S->counter", "S->bump = fn() 77"]
RE_SECOND = [("require state", "state"), ("require state as s2", "s2"), ("require state as s1", "s1")]


def run_rerequire(ctx, cell):
    ctx.reach("graphs")
    it, log = modfix.new_session()
    key = "C11:rerequire"
    first = RE_FIRST[cell["first"]]
    obj1 = "s1" if " as s1" in first else "state"
    act = RE_ACTS[ctx.choice("act", len(RE_ACTS))].replace("S", obj1)
    second, obj2 = RE_SECOND[ctx.choice("second", len(RE_SECOND))]
    prog = [first, act, second]
    detail = {"program": prog}
    for st in prog:
        o = guard(it.interpret, st, "imp")
        if o.kind != "ok":
            ctx.fail(key + ":step-failed:" + (o.hostname() or o.kind), dict(detail, step=st, exc=str(o.exc)))
            return prog
    cur = guard(it.interpret, obj2 + "->current()", "probe")
    mem = guard(it.interpret, obj2 + "->counter", "probe")
    names = sorted(it.environment.get(obj2, None).value.keys())
    d2 = dict(detail, current=str(cur.value), member=str(mem.value), names=names, load_log=str(log))
    ctx.check(cur.kind == "ok" and mem.kind == "ok" and cur.value == mem.value,
              key + ":module-object-does-not-hold-the-modules-current-definitions", d2)
    ctx.check(names == ["bump", "counter", "current"], key + ":module-object-exposes-other-names", d2)
    b = guard(it.interpret, obj2 + "->bump()", "probe")
    ctx.check(b.kind == "ok" and cur.kind == "ok" and b.value.value == cur.value.value + 1,
              key + ":module-object-function-is-not-the-modules", dict(d2, bump=str(b.value)))
    ctx.check([x.value for x in log.value].count("state") == 1, key + ":module-body-ran-more-than-once[state]", d2)
    return [prog, names]


def run(ctx, cell):
    if cell["k"] == "bind":
        return run_bind(ctx, cell)
    if cell["k"] == "rerequire":
        return run_rerequire(ctx, cell)
    return run_graphs(ctx, cell)


def run_bind(ctx, cell):
    ctx.reach("bind")
    form, n = cell["form"], cell["n"]
    key = "C11:bind:" + form
    base = Environment()
    modenv = base.newEnv()
    names = []
    for i in range(n):
        nm = POOL[cell["s0"]] if (i == 0 and "s0" in cell) else POOL[ctx.choice("s%d" % i, len(POOL))]
        names.append(nm)
        if nm == "Sub":
            o = V.ValueObject()
            o.isModule = True
            modenv.put(nm, o)
        elif nm == "obj":
            o = V.ValueObject()
            o.addItem("hits", vint(0))
            modenv.put(nm, o)
        elif nm == "lst":
            modenv.put(nm, V.ValueList())
        else:
            modenv.put(nm, vint(100 + i))
    base.modules["M"] = modenv
    importer = base.newEnv()
    importer.put("mine", vint(1))
    pos = SourcePos("t", 1, 1)
    symbols = None
    if form == "import":
        symbols = {"nope": "nope"} if ctx.choice("imp_nope", 2) else {}
        for nm in sorted(set(names)):
            sel = ctx.choice("imp_" + nm, 3)        # 0 not listed, 1 listed, 2 listed with alias
            if sel == 1:
                symbols[nm] = nm
            elif sel == 2:
                symbols[nm] = "alias_" + nm.strip("_")
    node = N.NodeRequire(N.NodeIdentifier("M", pos), "N2" if form == "as" else None, form == "unqualified",
                         symbols, pos)
    before = set(importer.getLocalSymbols())
    out = guard(node.evaluate, importer)
    after = set(importer.getLocalSymbols())
    new = after - before
    public = [nm for nm in dict.fromkeys(names) if not nm.startswith("_")]
    detail = {"module_symbols": names, "form": form, "symbols": symbols, "new_in_importer": sorted(new),
              "outcome": out.kind}
    if out.kind != "ok":
        ctx.fail(key + ":" + out.kind, detail)
        return detail
    ctx.check(len(base.modulestack) == 0, key + ":module-stack-not-empty", detail)
    if form in ("qualified", "as"):
        mn = "N2" if form == "as" else "M"
        if not ctx.check(new == {mn}, key + ":importer-scope-changed-by-other-names", detail):
            return detail
        obj = importer.get(mn)
        members = set(obj.value.keys())
        exp = set(p for p in public if p != "Sub")        # nested module objects are not re-exported
        ctx.check(obj.isObject() and obj.isModule, key + ":not-a-module-object", detail)
        ctx.check(members == exp, key + ":module-object-members-wrong", dict(detail, members=sorted(members)))
    elif form == "unqualified":
        ctx.check(new == set(public), key + ":unqualified-binds-wrong-names", detail)
    else:
        exp = set(symbols[nm] for nm in public if nm in symbols)
        ctx.check(new == exp, key + ":import-list-binds-wrong-names", detail)
    for nm in new:
        ctx.check(not nm.startswith("_"), key + ":underscore-name-exported", detail)
    return detail


def run_graphs(ctx, cell):
    ctx.reach("graphs")
    n = cell["n"]
    it, log = modfix.new_session()
    idx = [cell["first"]] + [ctx.choice("imp%d" % i, len(IMPORTS)) for i in range(1, n)]
    stmts = [IMPORTS[i] for i in idx]
    key = "C11:graphs"
    outs = []
    it.environment.put("importer_only_name", vint(99))
    before = set(it.environment.getLocalSymbols())
    for s in stmts:
        o = guard(it.interpret, s, "imp")
        outs.append(o.kind)
        if o.kind == "host":
            ctx.fail(key + ":host-exception:" + o.hostname(), {"imports": stmts})
            return outs
        should_fail = s in ("require cyc_a", "require selfreq", "require good import [nope]",
                            "require good import [_count as leaked]")
        if s in ("require cyc_a", "require selfreq"):
            ctx.check(o.kind == "rt", key + ":cycle-not-reported[%s]" % s, {"imports": stmts, "outcome": o.kind})
        elif not should_fail:
            ctx.check(o.kind == "ok", key + ":import-failed[%s]" % s,
                      {"imports": stmts, "outcome": o.kind, "exc": str(o.exc)})
    detail = {"imports": stmts, "load_log": str(log)}
    # each module body at most once
    loaded = [x.value for x in log.value]
    for m in ("good", "other", "third", "shadow"):
        ctx.check(loaded.count(m) <= 1, key + ":module-body-ran-more-than-once[%s]" % m, detail)
    # a failing (cyclic) module is not cached, but within ONE require its body starts at most once:
    # the cycle is reported when it closes, not after the first module ran a second time
    for m, starter in (("cyc_a", "require cyc_a"), ("cyc_b", "require cyc_a"), ("selfreq", "require selfreq")):
        ctx.check(loaded.count(m) <= stmts.count(starter), key + ":cycle-re-entered-before-it-was-reported[%s]" % m, detail)
    new = set(it.environment.getLocalSymbols()) - before
    # exactly the requested names
    exp = set()
    for s in stmts:
        exp |= {"require good": {"good"}, "require good as g2": {"g2"},
                "require good unqualified": {"pub", "inc", "get", "peek_importer"},
                "require good import [inc as bump, pub]": {"bump", "pub"}, "require other": {"other"},
                "require third": {"third"}, "require shadow unqualified": {"pub", "Other"},
                "require shadow import [pub as spub]": {"spub"}}.get(s, set())
    ctx.check(new == exp, key + ":importer-scope-differs-from-requested-names",
              dict(detail, new=sorted(new), expected=sorted(exp)))
    for nm in new:
        ctx.check(not nm.startswith("_"), key + ":underscore-name-exported", dict(detail, name=nm))
    # shared instance: every way of reaching good's counter sees the same state
    counters = []
    for p in ("good->inc()", "g2->inc()", "inc()", "bump()", "other->via_good()"):
        o = guard(it.interpret, p, "probe")
        if o.kind == "ok":
            counters.append(o.value.value)
    ctx.check(counters == list(range(1, len(counters) + 1)), key + ":importers-do-not-share-one-instance",
              dict(detail, counters=[int(c) for c in counters]))
    # module code cannot see the importer's variables
    o = guard(it.interpret, "good->peek_importer()", "probe")
    if "good" in new:
        ctx.check(o.kind == "rt", key + ":module-code-sees-importer-variables", dict(detail, outcome=o.kind))
    # private names are not reachable
    for p in ("_count", "__hidden", "good->__hidden", "leaked", "_pub"):
        o = guard(it.interpret, p, "probe")
        ok = o.kind == "rt" or (o.kind == "ok" and o.value.isNull())
        ctx.check(ok, key + ":private-name-reachable[%s]" % p, dict(detail, value=str(o.value)))
    return [outs, sorted(new)]
