"""C12 -- results do not depend on hash seeds, process or construction order.

sets : driver programs send sets of strings through every iteration / conversion / spread /
       destructuring / rendering path and the collection library.  Symbolic: the iteration
       order of every host set (symex.nondet.NondetSet: one arbitrary permutation per set
       object, re-drawn when it changes).  Result, output and error must equal those under the
       canonical order for every permutation.  Replay of a counterexample: the program runs in
       fresh /venv/bin/python processes under up to 32 PYTHONHASHSEEDs until two outputs differ.
maps : the same for maps, where the unspecified thing is the insertion order of construction
       (a symbolic permutation; replay is direct).
prng : the seeded pseudo random generator with a symbolic seed gives the same sequence twice."""
import os
import subprocess
import sys

import ckl.values as V

from harness.common import run_ckl, vint, vstr, vlist, vset, vmap, fresh_interp, interp

FUNCTIONS = ["ckl.values.ValueSet/ValueMap (every use of .value)", "ckl.nodes.invoke (spread)", "ckl.nodes.NodeList (spread)",
             "ckl.nodes.NodeFor / comprehensions / getCollectionValue / destructuring", "ckl.functions.FuncAdd/FuncSub (set arithmetic)",
             "set.ckl, list.ckl, core.ckl collection functions", "ckl.functions.FuncRandom/FuncSetSeed"]
OUTSIDE = ["real processes and hash seeds are used for replay only: the model (any order) over-approximates CPython",
           "sets of more than 3 (thorough 4) elements", "programs outside the driver list"]
REACH = {"sets", "maps", "prng"}
CROSS_VALIDATE = True
ORACLE_TIMEOUT = 60
PATH_SECONDS = 30

SET_PROGS = [
    "[...s]", "def f(a...) a...; f(...s)", "def f(a, b, c) [a, b, c]; f(...s)", "[x for x in s]",
    "def r = []; for x in s do append(r, x) end; r", "list(s)", "string(s)", "s", "sorted(s)",
    "def [a, b] = s; [a, b]", "def a = 1; def b = 2; [a, b] = s; [a, b]", "for [a, b] in [s] do return [a, b] end",
    "join(s, ',')", "s + t", "list(s + t)", "list(s - 'a')", "[...(s + t)]", "string(s + t)", "s + 'z'", "'z' + s",
    "[...(s - t)]", "zip(list(s), list(t))", "first(list(s))", "last(list(s))", "reduce(list(s), add)", "min(list(s))",
    "max(list(s))", "union(s, t)", "list(intersection(s, t))", "list(diff(s, t))", "list(symmetric_diff(s, t))",
    "unique(list(s) + list(t))", "<<x + '!' for x in s>>", "list(<<x + '!' for x in s>>)", "<<<x => 1 for x in s>>>",
    "string(<<<x => 1 for x in s>>>)", "enumerate(s)", "list(set(list(s)))", "append_all([], s)", "string(append_all(<<'q'>>, s))",
    "s == t", "compare(s, t)", "s < t", "def o = str_output(); print(s, o); get_output_string(o)",
    "def o = str_output(); for x in s do print(x, o) end; get_output_string(o)", "s('{s}')", "sprintf('{0}', s)",
    "for x in s do return x end", "def r = ''; for x in s do r = r + x end; r", "[...s][0]", "grouped(list(s))",
    "filter(s, fn(x) TRUE)", "map_list(s, fn(x) x)", "count(s, 'a')", "chunks(list(s), 2)", "pairs(list(s))",
    "flatten([s, t])", "reverse_list(list(s))", "[x + y for x in s for y in t]", "[[x, y] for x in s also for y in t]",
    "<<x for x in s if x > 'a'>>", "[length(x) for x in s]", "sum([length(x) for x in s])", "list(s)[0]",
    "is_empty(s)", "length(s)", "'a' in s", "contains(s, 'a')", "remove(s, 'a'); list(s)", "append(s, 'q'); [...s]",
    "def m = <<<>>>; for x in s do put(m, x, length(m)) end; m", "def l = []; for x in s do insert_at(l, 0, x) end; l",
    "any(s, fn(x) x == 'a')", "all(s, fn(x) x == 'a')", "list(s) !> sublist(1)", "object([[x, 1] for x in s])",
    "zip_map(list(s), [1, 2, 3])", "label_data(list(s), [1, 2, 3])", "string([s, t])", "[s, t]", "<<s, t>>", "<<<s => 1>>>",
    "sorted(s, key = fn(x) length(x))", "sorted(s, cmp = fn(a, b) 0)", "sorted(s + t, key = fn(x) 1)",
    "sorted(list(s), key = fn(x) length(x))", "grouped(sorted(s), cmp = fn(a, b) 0)", "unique(s, key = fn(x) length(x))",
    "min(list(s), key = fn(x) length(x))", "max(list(s), key = fn(x) 0)", "first(sorted(s, key = fn(x) 0))",
    "type(s)", "set(list(s))", "parse_json(string(list(s)))", "for_each(s, fn(x) x); 1", "permutations(list(s))[0]",
    # comprehensions whose result depends on the enumeration order of the source (colliding keys, first match)
    "<<<length(x) => x for x in s>>>", "<<<x[0] => x for x in s + 'ab'>>>", "<<<1 => x for x in s>>>",
    "string(<<<length(x) => x for x in s>>>)", "[x for x in <<length(x) for x in s>>]", "<<[length(x), x] for x in s>>",
    "<<<k => v for [k, v] in [[length(x), x] for x in s]>>>", "def r = NULL; for x in s do r = x end; r",
    # operators with a set operand
    "['head'] + s", "def acc = ['x']; acc += s; acc", "add([0], s)", "[] + s + t", "s + ['z']", "string(s - 'a')", "list(s) + list(t)",
    "[1] * 2 + s", "s == t", "[s, t]", "<<s, t>>", "sum([length(x) for x in s])", "zip(s, t)", "enumerate(s)", "first(s + t)",
]

MAP_PROGS = [
    "m", "string(m)", "[x for x in keys m]", "[x for x in values m]", "[x for x in entries m]",
    "def r = []; for x in keys m do append(r, x) end; r", "def r = []; for x in values m do append(r, x) end; r",
    "def r = []; for [k, v] in entries m do append(r, [k, v]) end; r", "def r = []; for x in m do append(r, x) end; r",
    "list(m)", "set(m)", "string(set(m))", "def f(a = 0, b = 0, c = 0) [a, b, c]; f(...m)", "object(m)", "string(object(m))",
    "enumerate(m)", "<<<v => k for [k, v] in entries m>>>", "<<<k => v for [k, v] in entries m>>>",
    "sum([x for x in values m])", "m == n", "string([m, n])", "length(m)", "map_get(m, 'a')", "m['a']", "'a' in m",
    "remove(m, 'a'); m", "put(m, 'q', 9); string(m)", "def o = str_output(); print(m, o); get_output_string(o)",
    "s('{m}')", "[...[x for x in keys m]]", "zip([x for x in keys m], [x for x in values m])", "<<m, n>>", "<<<m => 1>>>",
    "for k in keys m do return k end", "is_empty(m)", "string(list(m))",
]

ELEMS = ["b", "a", "c", "ab"]
# expected results for the 3-element set <<'b', 'a', 'c'>> (sorted enumeration)
SORTED_RESULT = {"[...s]": "['a', 'b', 'c']", "list(s)": "['a', 'b', 'c']", "def [a, b] = s; [a, b]": "['a', 'b']",
                 "def a = 1; def b = 2; [a, b] = s; [a, b]": "['a', 'b']", "[x for x in s]": "['a', 'b', 'c']",
                 "def f(a, b, c) [a, b, c]; f(...s)": "['a', 'b', 'c']"}
# mixed scalars: sorted order across kinds must still be one fixed order
MIXED = [[1, "pear", "b", 10], [2, "2", "apple"], ["x", 5, None], [1.5, "1.5", 3], [True, "TRUE", 0]]
MIXED_PROGS = ["[...s]", "list(s)", "string(s)", "sorted(list(s))", "[x for x in s]", "def r = []; for x in s do append(r, x) end; r",
               "string(<<<x => 1 for x in s>>>)", "def f(a...) a...; f(...s)", "first(list(s))", "string(s + 'zz')",
               "[0] + s", "def acc = []; acc += s; acc"]


# maps whose keys are not strings (such entries are passed positionally when spread into a call)
IKEYS = [[2, 1, 3], [7, "b", 1.5], [True, 0, "0"], [10, 9, 100]]
IMAP_PROGS = ["def f(a, b, c) [a, b, c]; f(...m)", "def f(a...) a...; f(...m)", "[...m]", "string(m)", "[x for x in keys m]",
              "list(m)", "for k in keys m do return k end", "apply(fn(a, b, c) [a, b, c], m)", "[x for x in values m]",
              "def f(a = 0, b = 0, c = 0) [a, b, c]; f(...m)", "def [a, b] = m; [a, b]", "string(set(m))"]


def bounds(tier):
    return {"set_size": 3 if tier == "quick" else 4, "programs": len(SET_PROGS) + len(MAP_PROGS),
            "replay_hash_seeds": 32}


def cells(tier, seed):
    n = bounds(tier)["set_size"]
    out = []
    for i in range(len(SET_PROGS)):
        out.append({"k": "sets", "i": i, "n": n})
    for i in range(len(MAP_PROGS)):
        out.append({"k": "maps", "i": i, "n": n})
    for mi in range(len(MIXED)):
        for pi in range(len(MIXED_PROGS)):
            out.append({"k": "sets", "mixed": mi, "prog": pi, "i": -1, "n": 0})
    for ki in range(len(IKEYS)):
        for pi in range(len(IMAP_PROGS)):
            out.append({"k": "imaps", "keys": ki, "prog": pi})
    out.append({"k": "prng"})
    return out


def mkscalar(x):
    if x is None:
        return V.NULL
    if isinstance(x, bool):
        return V.TRUE if x else V.FALSE
    if isinstance(x, int):
        return vint(x)
    if isinstance(x, float):
        return V.ValueDecimal(x)
    return vstr(x)


def set_env(n):
    if isinstance(n, list):
        return {"s": vset([mkscalar(x) for x in n]), "t": vset([vstr("c"), vstr("d"), vstr("a")])}
    return {"s": vset([vstr(x) for x in ELEMS[:n]]), "t": vset([vstr("c"), vstr("d"), vstr("a")])}


def observe(text, env):
    it = interp()
    o = V.StringOutput()
    it.setStandardOutput(o)
    out = run_ckl(text, env, it=it)
    if out.kind == "ok":
        return ["ok", str(out.value), o.output]
    if out.kind == "rt":
        return ["rt", str(out.exc.value), o.output]
    return [out.kind, out.hostname(), o.output]


SUB = r"""
import sys, json
sys.path.insert(0, %r)
from ckl.interpreter import Interpreter
from ckl.functions import get_none_environment
import ckl.values as V
from ckl.errors import CklRuntimeError
def mk(x):
    if x is None: return V.NULL
    if isinstance(x, bool): return V.TRUE if x else V.FALSE
    if isinstance(x, int): return V.ValueInt(x)
    if isinstance(x, float): return V.ValueDecimal(x)
    return V.ValueString(x)
def vs(items):
    r = V.ValueSet()
    for i in items: r.addItem(mk(i))
    return r
it = Interpreter(True, True)
o = V.StringOutput(); it.setStandardOutput(o)
env = get_none_environment()
env.put("s", vs(%r)); env.put("t", vs(["c", "d", "a"]))
try:
    r = it.interpret(%r, "t", env); print(json.dumps(["ok", str(r), o.output]))
except CklRuntimeError as e:
    print(json.dumps(["rt", str(e.value), o.output]))
except Exception as e:
    print(json.dumps(["host", type(e).__name__, o.output]))
"""


def hash_seed_outputs(text, n, seeds):
    import symex.loader as L
    src = os.path.join(L.repo_root(), "src")
    outs = {}
    for k in seeds:
        env = dict(os.environ)
        env["PYTHONHASHSEED"] = str(k)
        env.pop("PYTHONPATH", None)
        p = subprocess.run([sys.executable, "-c", SUB % (src, n if isinstance(n, list) else ELEMS[:n], text)],
                           env=env, capture_output=True,
                           text=True, timeout=50)
        outs.setdefault(p.stdout.strip() or ("ERR " + p.stderr[-200:]), []).append(k)
        if len(outs) > 1:
            break
    return outs


def run(ctx, cell):
    k = cell["k"]
    if k == "sets":
        ctx.reach("sets")
        if cell["i"] < 0:
            text = MIXED_PROGS[cell["prog"]]
            n = MIXED[cell["mixed"]]
            key = "C12:mixed-set%d[%s]" % (cell["mixed"], text)
        else:
            text = SET_PROGS[cell["i"]]
            key = "C12:sets[%s]" % text
            n = cell["n"]
        if ctx.symbolic:
            from symex import nondet
            try:
                nondet.enable(ctx, "identity")
                ref = observe(text, set_env(n))
                nondet.enable(ctx, "symbolic")
                got = observe(text, set_env(n))
            finally:
                nondet.disable()
            ctx.check(ref == got, key + ":depends-on-set-iteration-order",
                      lambda: {"program": text, "canonical_order": ref, "other_order": got})
            if text in SORTED_RESULT and cell["i"] >= 0 and n == 3:
                # destructuring / spreading / converting a set yields its elements in sorted order
                ctx.check(ref[:2] == ["ok", SORTED_RESULT[text]], key + ":not-in-sorted-order",
                          lambda: {"program": text, "got": ref, "expected": SORTED_RESULT[text]})
            return ["done"]
        if text in SORTED_RESULT and cell["i"] >= 0 and n == 3:
            ref = observe(text, set_env(n))
            ctx.check(ref[:2] == ["ok", SORTED_RESULT[text]], key + ":not-in-sorted-order",
                      {"program": text, "got": ref, "expected": SORTED_RESULT[text]})
        if ctx.inputs.get("__replay__") and "depends-on" in str(ctx.inputs.get("__replay__")):
            outs = hash_seed_outputs(text, n, range(32))
            if len(outs) > 1:
                ctx.fail(key + ":depends-on-set-iteration-order",
                         {"program": text, "outputs_by_hash_seed": {o: ks for o, ks in outs.items()}})
        return ["done"]
    if k == "maps":
        ctx.reach("maps")
        text = MAP_PROGS[cell["i"]]
        key = "C12:maps[%s]" % text
        n = cell["n"]
        keys = ELEMS[:n]
        perm = ctx.perm("p", n)
        perm2 = ctx.perm("q", 2)

        def build(order, order2):
            return {"m": vmap([(vstr(keys[i]), vint(i)) for i in order]),
                    "n": vmap([(vstr(("x", "a")[i]), vint(i)) for i in order2])}
        ref = observe(text, build(list(range(n)), [0, 1]))
        got = observe(text, build(perm, perm2))
        ctx.check(ref == got, key + ":depends-on-map-construction-order",
                  lambda: {"program": text, "canonical": ref, "permuted": got, "order": perm})
        return ["done"]
    if k == "imaps":
        ctx.reach("maps")
        text = IMAP_PROGS[cell["prog"]]
        keys = IKEYS[cell["keys"]]
        key = "C12:imaps%d[%s]" % (cell["keys"], text)
        perm = ctx.perm("p", len(keys))

        def build(order):
            return {"m": vmap([(mkscalar(keys[i]), vstr("v%d" % i)) for i in order])}
        ref = observe(text, build(list(range(len(keys)))))
        got = observe(text, build(perm))
        ctx.check(ref == got, key + ":depends-on-map-construction-order",
                  lambda: {"program": text, "canonical": ref, "permuted": got, "order": perm})
        return ["done"]
    if k == "prng":
        ctx.reach("prng")
        seed = (0, 1, 12345, 233279)[ctx.choice("seed", 4)]
        text = "set_seed(k); def a = [random(1000), random(1000), random(7)]; set_seed(k); def b = " \
               "[random(1000), random(1000), random(7)]; a == b"
        out = run_ckl(text, {"k": vint(seed)})
        if out.kind != "ok":
            ctx.fail("C12:prng:%s" % out.kind, lambda: str(out.exc))
            return ["done"]
        ctx.check(out.value == V.TRUE, "C12:prng:same-seed-different-sequence", lambda: {"seed": int(seed)})
        return ["done"]
    raise AssertionError(k)
