"""C13 -- only language-level errors escape evaluation.

funcs : every function reachable in the (secure, legacy) base environment -- i.e. every native
        and every function of the bundled modules -- called with every tuple of argument kinds
        (arity <= 2 plus four all-int / string / list kind triples, thorough every triple; 14 kinds).  Int payloads are symbolic in [-9, 9] (the edge values
        0, negative, out of range are solutions of the code's own branch conditions); the other
        kinds are drawn from small pools by symbolic selectors.
forms : every syntactic operator / indexing / slicing / iteration / spread / destructuring form
        with the same operand kinds.
Outcome discipline: a value, or CklRuntimeError whose value is a language value.  Any other
exception class, and budget exhaustion confirmed by the pristine run, is a violation."""
import ckl.values as V
from ckl.errors import CklRuntimeError

from harness.common import run_ckl, vint, vstr, vlist, vset, vmap, vdec, vbool, interp, raise_site

FUNCTIONS = ["every ValueFunc.execute reachable from get_base_environment(secure=True, legacy=True)",
             "ckl.nodes.* evaluate of the syntactic forms listed in FORMS", "ckl.nodes.invoke", "ckl.values.Args.*"]
OUTSIDE = ["resource exhaustion (huge repetitions)", "non-secure OS built-ins", "arity above the bound",
           "payloads outside the pools / ints outside [-9, 9]", "function-valued arguments other than 3 lambdas"]
REACH = {"value", "runtime-error"}
TOLERATE_UNSUPPORTED = 5000   # decimal arithmetic with a symbolic int operand: witness is run concretely
DIVERGE_LABEL = "C13:non-termination"
PATH_SECONDS = 8
ORACLE_TIMEOUT = 4
MAX_DECISIONS = 3000

KINDS = ["null", "bool", "int", "dec", "str", "pattern", "date", "list", "set", "map", "object",
         "func", "input", "output"]

FORMS = [
    "x + y", "x - y", "x * y", "x / y", "x % y", "x == y", "x != y", "x < y", "x <= y", "x > y", "x >= y",
    "x and y", "x or y", "not x", "-x", "x in y", "x not in y", "x is empty", "x is not zero",
    "x is negative", "x is numerical", "x is date", "x is time", "x starts with y", "x ends with y",
    "x contains y", "x matches y", "x[y]", "x[y, 0]", "x[y to *]", "x[0 to y]", "x[y] = 1", "x->y", "x->a",
    "x->a = y", "x->a()", "x !> y()", "x(y)", "x(...y)", "[...x, y]", "[a for a in x]", "[a for a in x if y]",
    "[a for a in keys x]", "[a for a in values x]", "[a for a in entries x]", "<<a for a in x>>",
    "<<<a => y for a in x>>>", "[a + b for a in x for b in y]", "[a for a in x also for b in y]",
    "for a in x do y end", "for a in keys x do y end", "for a in values x do y end",
    "for a in entries x do y end", "for [a, b] in x do y end", "while x do break end",
    "def [a, b] = x; a", "def a = 1; def b = 2; [a, b] = x; b", "if x then 1 else 2", "if x then 1 elif y then 2",
    "do error x catch y 1 end", "do x finally y end", "x += y", "x -= y", "x *= y", "x /= y", "x %= y",
    "x[0] += y", "x[0] /= y", "<<<x => y>>>", "<<x, y>>", "<*a = x*>->a", "return x", "error x",
    "def f(a, b = x) a; f(y)", "def f(a...) a...; f(x, y)", "def f(a) a; f(a = x, b = y)", "fn(a) do a(y) end(x)",
    "x is in y", "x is not in y", "string(x)", "s('{x} {y}')",
    # loop exits in every iteration form (also over inputs, objects and strings)
    "for a in x do continue end", "for a in x do if a == y then continue; a end", "for a in x do break end",
    "for a in keys x do continue end", "for a in values x do continue end", "for a in entries x do continue end",
    "for a in x do for b in y do continue end end", "for a in x do do continue finally y end end",
    "def f() do for a in x do return a end end; f()", "[a for a in x if y]", "for [a, b] in x do continue end",
]


def bounds(tier):
    return {"arity": 2 if tier == "quick" else 3, "kinds": len(KINDS), "int_range": "[-9, 9]",
            "forms": len(FORMS)}


def func_names():
    it = interp()
    env = it.environment
    names = []
    for n in env.getSymbols():
        try:
            v = env.get(n)
        except Exception:
            continue
        if isinstance(v, V.Value) and v.isFunc():
            names.append(n)
    return sorted(names)


# info(): whether a shared singleton (TRUE, NULL) carries an info attribute depends on what ran
# before in the same process -- not reproducible across processes, skipped
SKIP = {"read", "readln", "read_all", "process_lines", "print", "println", "sleep", "info"}


def cells(tier, seed):
    out = []
    it = interp()
    for n in func_names():
        fn = it.environment.get(n)
        np = len(fn.getArgNames())
        out.append({"k": "func", "f": n, "kinds": []})
        if np >= 1:
            for k1 in KINDS:
                out.append({"k": "func", "f": n, "kinds": [k1]})
        if np >= 2:
            for k1 in KINDS:
                out.append({"k": "func", "f": n, "kinds": [k1, None]})
            out.append({"k": "func", "f": n, "kinds": [None, "same"]})
        if np >= 3 and tier == "quick":
            for ks in (["int", "int", "int"], ["str", "int", "int"], ["list", "int", "int"], ["str", "str", "str"]):
                out.append({"k": "func", "f": n, "kinds": ks})
        if np >= 3 and tier != "quick":
            for k1 in KINDS:
                for k2 in KINDS:
                    out.append({"k": "func", "f": n, "kinds": [k1, k2, None]})
    for i in range(len(FORMS)):
        for k1 in KINDS:
            out.append({"k": "form", "i": i, "kinds": [k1, None]})
    return out


_LAMBDAS = None


# Euclid on two symbolic ints is non-linear (a % b with both symbolic): ints are enumerated
ENUM_INTS = {"gcd", "lcm"}


def mkarg(ctx, kind, name, enum_ints=False):
    global _LAMBDAS
    if kind == "int" and enum_ints:
        return vint(ctx.choice(name, 19) - 9)
    if kind == "null":
        return V.NULL
    if kind == "bool":
        return vbool(ctx.bool(name))
    if kind == "int":
        return vint(ctx.int(name, -9, 9))
    if kind == "dec":
        return vdec((0.0, -1.5, 2.5)[ctx.choice(name, 3)])
    if kind == "str":
        # (the last two are not well-formed programs: eval / parse of a value must fail as a runtime error)
        return vstr(("", "a", "abc", "12", " a|b ", "{x#12}", "{y}{x#-9}", "{", "1 +", "(")[ctx.choice(name, 10)])
    if kind == "pattern":
        return V.ValuePattern("a")
    if kind == "date":
        import datetime
        return V.ValueDate(datetime.datetime(2020, 2, 29, 12, 30))
    if kind == "list":
        i = ctx.choice(name, 4)
        return [vlist([]), vlist([vint(1)]), vlist([vint(1), vstr("a")]),
                vlist([vlist([vint(1), vint(2)]), vlist([vint(3), vint(4)])])][i]
    if kind == "set":
        return [vset([]), vset([vint(1), vint(2)])][ctx.choice(name, 2)]
    if kind == "map":
        return [vmap([]), vmap([(vint(1), vint(2)), (vstr("a"), vstr("b"))])][ctx.choice(name, 2)]
    if kind == "object":
        o = V.ValueObject()
        if ctx.choice(name, 2):
            o.addItem("a", vint(1))
        return o
    if kind == "func":
        if _LAMBDAS is None:
            _LAMBDAS = [run_ckl(t).value for t in ("fn(x) x", "fn(a, b) a + b", "fn() 1")]
        return _LAMBDAS[ctx.choice(name, 3)]
    if kind == "input":
        return V.ValueInput(V.StringInput("ab\ncd"))
    if kind == "output":
        return V.ValueOutput(V.StringOutput())
    raise AssertionError(kind)


def run(ctx, cell):
    kinds = list(cell["kinds"])
    for i, kd in enumerate(kinds):
        if kd is None:
            kinds[i] = KINDS[ctx.choice("kind%d" % i, len(KINDS))]
    names = ["x", "y", "z"][:len(kinds)]
    env = {}
    for n, kd in zip(names, kinds):
        env[n] = env["x"] if kd == "same" else mkarg(ctx, kd, n, cell.get("f") in ENUM_INTS)
    if cell["k"] == "func":
        f = cell["f"]
        if f in SKIP:
            return ["skip"]
        text = "set_seed(1); %s(%s)" % (f, ", ".join(names))
        key = "C13:%s(%s)" % (f, ",".join(kinds))
    else:
        text = FORMS[cell["i"]]
        key = "C13:form[%s](%s)" % (text, ",".join(kinds))
    it = interp()
    it.setStandardInput(V.StringInput("line1\nline2\n"))
    out = run_ckl(text, env, it=it)
    detail = lambda: {"text": text, "args": {n: ctx.plain(v) for n, v in env.items()},
                      "exc": str(out.exc)[:200] if out.exc is not None else None}
    if out.kind == "host":
        ctx.fail("%s:%s@%s" % (key, out.hostname(), raise_site(out.exc)), detail)
        return ["host", out.hostname()]
    if out.kind == "rt":
        ctx.reach("runtime-error")
        ctx.check(isinstance(out.exc.value, V.Value), key + ":runtime-error-without-error-value", detail)
        return ["rt"]
    if out.kind == "syn":
        # the program text itself is well-formed, so a syntax error here was raised DURING evaluation
        # (eval / parse / require of a value): it is not a runtime error that `catch` can intercept
        import ckl.parser as P
        from harness.common import guard
        if guard(P.parse_script, text, "t").kind == "syn":
            return ["syn-text"]
        ctx.fail(key + ":syntax-error-escapes-evaluation", detail)
        return ["syn"]
    ctx.reach("value")
    ctx.check(isinstance(out.value, V.Value), key + ":result-is-not-a-language-value", detail)
    return ["ok"]
