"""C14 -- program meaning is independent of layout, comments and literal spelling.

layout : every token boundary of every seed gets a symbolic layout separator (whitespace, CR,
         LF, CRLF, # comment); the (type, value) token sequence produced by the real Lexer must
         be the canonical one for every such separator.  Parser and evaluator are deterministic
         functions of that sequence (positions only flow into messages: C20), so equal token
         sequences give equal results, output and error values.
eof    : trailing layout at end of input, including a comment without final newline.
ints   : a symbolic value spelled as decimal / hex (both cases) / binary / underscored numeral
         with symbolic digits must evaluate to the same int.
strings: a symbolic string spelled single-quoted (escaped), double-quoted (escaped) and with
         \\xHH escapes must lex to the same string token.
exprs  : != vs <>, trailing semicolons and redundant parentheses around sub-expressions of
         expression seeds, evaluated by the real interpreter over symbolic operands."""
from ckl.lexer import Lexer

from harness import tokens as T
from harness.common import guard, run_ckl, vint, vstr, schr, sord, sstr, srepr
import ckl.values as V

FUNCTIONS = ["ckl.lexer.Lexer.scan", "ckl.parser.parse_script", "ckl.parser.parse_*_expr",
             "ckl.nodes.*.evaluate (expression seeds)", "ckl.values.ValueString.__repr__"]
TOLERATE_UNSUPPORTED = 40   # a / c goes through float division in FuncDiv on some trees (C02's subject)
OUTSIDE = ["operands outside [-1000, 1000] in the expression cells", "more than one non-canonical gap at a time (the scanner returns to state 0 after every "
           "separator character: gaps do not interact -- an argument, not a solver result)",
           "gaps longer than the bound", "strings longer than 2 characters",
           "ints above 2^16 in the spelling cells"]
REACH = {"layout", "eof", "ints", "strings", "exprs"}

EXPRS = [
    ("a + b * c", ["(a + b * c)", "a + (b * c)", "(a) + (b) * (c)", "a + b * c;", "((a)) + b * c"]),
    ("a - b - c", ["(a - b) - c", "(a - b - c)", "a - b - (c)"]),
    ("a * b % c", ["(a * b) % c", "(a * b % c);"]),
    ("a / c", ["(a / c)", "(a) / (c)", "a / c;"]),
    ("a != b", ["a <> b", "(a != b)", "(a) <> (b)", "a <> b;"]),
    ("a < b and b < c or a == c", ["(a < b and b < c) or a == c", "((a < b) and (b < c)) or (a == c)"]),
    ("not a == b", ["not (a == b)", "(not a == b)"]),
    ("a < b <= c", ["(a < b <= c)", "(a) < (b) <= (c)"]),
    ("-a * b", ["(-a) * b", "(-a * b)", "-(a) * (b)"]),
    ("[a, b][0] + c", ["([a, b][0]) + c", "[(a), (b)][(0)] + (c)"]),
    ("if a < b then a else b", ["(if a < b then a else b)", "if (a < b) then (a) else (b)",
                                "if a < b then a else b;"]),
    ("def x = a; x + b", ["def x = (a); (x + b)", "def x = a; x + b;"]),
    # optional semicolons after statements, catch handlers and before finally / end
    ("do error a catch 1 b catch 2 c catch all 0 end",
     ["do error a catch 1 b; catch 2 c; catch all 0; end", "do error a; catch 1 b catch 2 c; catch all 0 end",
      "do error (a) catch 1 b; catch 2 c catch all 0 end;", "do error a catch 1 b catch 2 c; catch all 0 end"]),
    ("do error a catch b 1 catch c 2 catch all 3 finally 4 end",
     ["do error a; catch b 1; catch c 2; catch all 3; finally 4; end", "do error a catch b 1; catch c 2 catch all 3 finally 4 end",
      "do error a catch b 1 catch c 2; catch all 3; finally 4 end"]),
    ("do a + b finally c end", ["do a + b; finally c end", "do a + b; finally c; end", "do (a + b) finally (c) end;"]),
    ("def f(x) do x + a end; f(b) * c", ["def f(x) do x + a; end; f(b) * c;", "def f(x) do (x + a) end; (f(b) * c)"]),
    ("def r = 0; for x in [a, b, c] do r += x end; r", ["def r = 0; for x in [a, b, c] do r += x; end; r;"]),
    ("def r = a; while r < b do r += 7 end; r", ["def r = a; while r < b do r += 7; end; r;"]),
    # redundant parentheses around the collection of a loop / comprehension, also behind keys / values / entries
    ("def m = <<<1 => a, 2 => b>>>; def r = 0; for k in keys m do r += k end; r",
     ["def m = <<<1 => a, 2 => b>>>; def r = 0; for k in keys (m) do r += k end; r",
      "def m = <<<1 => a, 2 => b>>>; def r = 0; for k in keys(m) do (r += k) end; (r)"]),
    ("def m = <<<1 => a, 2 => b>>>; def r = 0; for v in values m do r += v end; r",
     ["def m = <<<1 => a, 2 => b>>>; def r = 0; for v in values (m) do r += v end; r"]),
    ("def m = <<<1 => a, 2 => b>>>; def r = 0; for e in entries m do r += e[1] end; r",
     ["def m = <<<1 => a, 2 => b>>>; def r = 0; for e in entries (m) do r += (e[1]) end; r"]),
    ("def m = <<<1 => a, 2 => b>>>; [v + c for v in values m]",
     ["def m = <<<1 => a, 2 => b>>>; [v + c for v in values (m)]", "def m = <<<1 => a, 2 => b>>>; [(v + c) for v in values (m)]"]),
    ("def r = 0; for x in [a, b] do r += x end; r", ["def r = 0; for x in ([a, b]) do r += (x) end; r",
                                                     "def r = 0; (for x in [a, b] do r += x end); r"]),
    ("def r = a; while r < b do r += 2000 end; r", ["def r = a; while (r < b) do r += 2000 end; r",
                                                   "def r = a; (while r < b do r += 2000 end); r"]),
    ("def y = a; y + b", ["(def y = a); y + b", "(def y = (a)); (y + b)"]),
    ("if a < b then c else a", ["(if a < b then c else a)", "((if (a < b) then c else a))"]),
    ("def f = fn(x) x + a; f(b)", ["def f = (fn(x) x + a); f(b)", "(def f = fn(x) (x + a)); (f(b))"]),
    ("do a + b end", ["(do a + b end)", "do (a + b) end"]),
    ("if a < b then do a end elif a < c then do b end else do c end",
     ["if a < b then do a; end elif a < c then do b; end else do c; end;", "if (a < b) then do (a) end elif (a < c) then do (b) end else do (c) end"]),
]


def bounds(tier):
    return {"gap_len": 2 if tier == "quick" else 3, "seeds": len(T.SEEDS), "int_max": 65535,
            "string_len": 2, "expr_seeds": len(EXPRS)}


def cells(tier, seed):
    b = bounds(tier)
    out = []
    for si, s in enumerate(T.SEEDS):
        pcs = T.seed_pieces(s)
        if pcs is None:
            continue
        for gap in range(0, len(pcs) + 1):
            for n in range(1, b["gap_len"] + 1):
                out.append({"k": "layout", "seed": si, "gap": gap, "n": n})
    for si in (0, 2, 25, 41, 43):
        for n in range(1, b["gap_len"] + 2):
            out.append({"k": "eof", "seed": si, "n": n})
    for sp in ("dec", "hex", "HEX", "bin", "under", "hexunder", "binunder"):
        out.append({"k": "ints", "sp": sp})
    for n in range(0, b["string_len"] + 1):
        for sp in ("single", "double", "hexesc"):
            out.append({"k": "strings", "n": n, "sp": sp})
    for ei in range(len(EXPRS)):
        for vi in range(len(EXPRS[ei][1])):
            out.append({"k": "exprs", "e": ei, "v": vi})
    for li in range(len(LITERALS)):
        for oi in range(len(TIGHT_OPS)):
            out.append({"k": "tight", "lit": li, "op": oi})
    return out


# a literal (or identifier / bracket) directly followed by an operator, with no layout in between,
# must mean the same as the spaced rendering
LITERALS = ["3", "2_5", "0xC", "0b11", "1.5", "0", "n", "(n)", "[n][0]", "'s'", "\"s\"", "TRUE", "12"]
TIGHT_OPS = ["+", "-", "*", "/", "%", "==", "!=", "<>", "<", "<=", ">", ">=", "!>string()", " and ", " or ",
             " in [3]", "->x", ",", ";", ")", "]"]


def tokseq(lexer):
    return [(t.type, t.value) for t in lexer.tokens]


def same_tokens(ctx, got, want, key, text):
    if not ctx.check(len(got) == len(want), key + ":token-count-changed",
                     lambda: {"text": str(text), "got": [str(v) for _, v in got]}):
        return
    for (gt, gv), (wt, wv) in zip(got, want):
        ctx.check(gt == wt, key + ":token-type-changed", lambda: {"text": str(text), "tok": str(gv)})
        ctx.check(gv == wv, key + ":token-value-changed",
                  lambda: {"text": str(text), "got": str(gv), "want": wv})


def hexdigit(ctx, d, upper):
    """character for digit value d (0..15, int or SymInt) -- forks on d < 10"""
    if d < 10:
        return schr(d + 48)
    return schr(d + (55 if upper else 87))


def run(ctx, cell):
    k = cell["k"]
    if k == "layout":
        ctx.reach("layout")
        from harness.c20 import build
        pcs = T.seed_pieces(T.SEEDS[cell["seed"]])
        gap = ctx.str("g", cell["n"])
        T.layout_ok(ctx, gap)
        text, _ = build(pcs, cell["gap"], list(gap))
        want = tokseq(Lexer(T.SEEDS[cell["seed"]], "t").scan())
        out = guard(lambda: Lexer(text, "t").scan())
        if out.kind != "ok":
            ctx.fail("C14:layout:lexer-%s" % out.kind, lambda: {"text": str(text), "exc": str(out.exc)})
            return out
        got = tokseq(out.value)
        same_tokens(ctx, got, want, "C14:layout", text)
        return ["tokens", [v for _, v in got]]
    if k == "eof":
        ctx.reach("eof")
        seed = T.SEEDS[cell["seed"]]
        n = cell["n"]
        tail = ctx.str("g", n)
        # layout at end of input: whitespace, or a comment that is NOT terminated by LF
        chars = list(tail)
        ws = lambda c: (c == " ") | (c == "\t") | (c == "\r") | (c == "\n")
        cond = ws(chars[0]) | (chars[0] == "#")
        ctx.assume(cond)
        for i in range(1, n):
            # after a '#' anything goes; otherwise whitespace or '#'
            prev_comment = (chars[0] == "#")
            for j in range(1, i):
                prev_comment = (prev_comment & (chars[j] != "\n")) | (chars[j] == "#")
            ctx.assume(prev_comment | ws(chars[i]) | (chars[i] == "#"))
        text = seed + tail
        want = tokseq(Lexer(seed, "t").scan())
        out = guard(lambda: Lexer(text, "t").scan())
        if out.kind != "ok":
            ctx.fail("C14:eof:lexer-%s" % out.kind, lambda: {"text": str(text), "exc": str(out.exc)})
            return out
        got = tokseq(out.value)
        same_tokens(ctx, got, want, "C14:eof", text)
        return ["tokens", [v for _, v in got]]
    if k == "ints":
        ctx.reach("ints")
        sp = cell["sp"]
        # the digits are the symbolic objects; the value is derived (linear in the digits)
        if sp in ("hex", "HEX", "hexunder"):
            ds = [ctx.int("d%d" % i, 0, 15) for i in range(4)]
            v = ((ds[0] * 16 + ds[1]) * 16 + ds[2]) * 16 + ds[3]
            cs = [hexdigit(ctx, d, sp == "HEX") for d in ds]
            text = "0x" + cs[0] + cs[1] + ("_" if sp == "hexunder" else "") + cs[2] + cs[3]
            if sp == "hexunder":
                # one more run of one or two underscores at a symbolic place: right after the prefix, between any
                # two digits or at the end (the value of a literal is the value of its digits)
                gap = ctx.choice("gap", 5)
                us = "_" * (1 + ctx.choice("us", 2))
                parts = ["0x"] + cs
                text = parts[0]
                for i in range(4):
                    if gap == i:
                        text = text + us
                    text = text + parts[1 + i]
                    if i == 1:
                        text = text + "_"
                if gap == 4:
                    text = text + us
        elif sp in ("bin", "binunder"):
            ds = [ctx.int("d%d" % i, 0, 1) for i in range(10 if sp == "bin" else 5)]
            gap = ctx.choice("gap", len(ds) + 1) if sp == "binunder" else -1
            us = "_" * (1 + ctx.choice("us", 2)) if sp == "binunder" else ""
            v = 0
            text = "0b"
            for i, d in enumerate(ds):
                if gap == i:
                    text = text + us
                v = v * 2 + d
                text = text + schr(d + 48)
            if gap == len(ds):
                text = text + us
        else:
            ds = [ctx.int("d0", 1, 9)] + [ctx.int("d%d" % i, 0, 9) for i in range(1, 5)]
            v = 0
            text = ""
            for i, d in enumerate(ds):
                v = v * 10 + d
                text = text + schr(d + 48)
                if sp == "under" and i in (1, 3):
                    text = text + "_"
            if sp == "under":
                # trailing and doubled underscores are spellings of the same number too
                text = text + "_" * ctx.choice("trail", 3)
        out = run_ckl(text)
        if out.kind != "ok":
            ctx.fail("C14:ints:%s:%s" % (sp, out.kind), lambda: {"text": str(text), "exc": str(out.exc)})
            return out
        ctx.check(out.value == vint(v), "C14:ints:%s:wrong-value" % sp,
                  lambda: {"text": str(text), "got": str(out.value), "want": int(v)})
        ctx.check(out.value.isInt(), "C14:ints:%s:not-an-int" % sp)
        return out
    if k == "strings":
        ctx.reach("strings")
        n, sp = cell["n"], cell["sp"]
        s = ctx.str("s", n)
        if sp == "single":
            text = srepr(vstr(s))
        elif sp == "double":
            text = "\""
            for c in list(s):
                if c == "\"":
                    text = text + "\\\""
                elif c == "\\":
                    text = text + "\\\\"
                else:
                    text = text + c
            text = text + "\""
        else:
            text = "'"
            for c in list(s):
                ctx.assume(c <= "\xff")
                o = sord(c)
                text = text + "\\x" + hexdigit(ctx, o // 16, False) + hexdigit(ctx, o % 16, True)
            text = text + "'"
        out = guard(lambda: Lexer(text, "t").scan())
        if out.kind != "ok":
            ctx.fail("C14:strings:%s:lexer-%s" % (sp, out.kind),
                     lambda: {"text": str(text), "exc": str(out.exc)})
            return out
        toks = out.value.tokens
        if ctx.check(len(toks) == 1, "C14:strings:%s:not-one-token" % sp,
                     lambda: {"text": str(text), "n": len(toks)}):
            ctx.check(toks[0].type == "string", "C14:strings:%s:not-a-string-token" % sp)
            ctx.check(toks[0].value == s, "C14:strings:%s:wrong-value" % sp,
                      lambda: {"text": str(text), "got": str(toks[0].value), "want": str(s)})
        return ["n", len(toks)]
    if k == "tight":
        ctx.reach("exprs")
        lit, op = LITERALS[cell["lit"]], TIGHT_OPS[cell["op"]]
        n = ctx.int("n", -50, 50)
        env = {"n": vint(n)}
        if op in (",", ")", "]"):
            wrap = {",": ("[", ", n]"), ")": ("(", ")"), "]": ("[", "]")}[op]
            loose = wrap[0] + lit + " " + wrap[1].lstrip()
            tight = wrap[0] + lit + wrap[1].replace(", ", ",")
            if op == ",":
                tight = "[" + lit + ",n]"
        elif op == ";":
            loose, tight = lit + " ; n", lit + ";n"
        elif op.startswith("!>") or op.startswith("->") or op.startswith(" "):
            loose, tight = lit + " " + op.strip(), lit + (op if op.startswith(" ") else op)
            if op.startswith(" "):
                tight = lit + op            # keyword operators keep their blanks
        else:
            loose, tight = "%s %s n" % (lit, op), "%s%sn" % (lit, op)
            tight2 = "%s%s n" % (lit, op)
        o1 = run_ckl(loose, dict(env))
        variants = [tight] + ([tight2] if op in TIGHT_OPS[:12] else [])
        key = "C14:tight:%s:%s" % (lit, op.strip())
        for tv in variants:
            o2 = run_ckl(tv, dict(env))
            detail = lambda: {"spaced": loose, "tight": tv, "n": int(n), "spaced_result": ctx.plain(o1),
                              "tight_result": ctx.plain(o2)}
            if o1.kind == "host" or o2.kind == "host":
                continue
            if not ctx.check(o1.kind == o2.kind, key + ":outcome-kind-differs", detail):
                continue
            if o1.kind == "ok":
                ctx.check(o1.value == o2.value, key + ":value-differs", detail)
                ctx.check(str(o1.value.type()) == str(o2.value.type()), key + ":kind-differs", detail)
            elif o1.kind == "rt":
                ctx.check(o1.exc.value == o2.exc.value, key + ":error-value-differs", detail)
        return [o1]
    if k == "exprs":
        ctx.reach("exprs")
        base, variants = EXPRS[cell["e"]]
        var = variants[cell["v"]]
        a, b, c = ctx.int("a", -1000, 1000), ctx.int("b", -1000, 1000), ctx.int("c", -1000, 1000)
        env = {"a": vint(a), "b": vint(b), "c": vint(c)}
        o1 = run_ckl(base, dict(env))
        o2 = run_ckl(var, dict(env))
        key = "C14:exprs:%d:%d" % (cell["e"], cell["v"])
        if o1.kind == "host" or o2.kind == "host":
            return [o1, o2]          # C13's business
        if not ctx.check(o1.kind == o2.kind, key + ":outcome-kind-differs",
                         lambda: {"base": base, "variant": var, "a": int(a), "b": int(b), "c": int(c)}):
            return [o1, o2]
        if o1.kind == "ok":
            ctx.check(o1.value == o2.value, key + ":value-differs",
                      lambda: {"base": base, "variant": var, "a": int(a), "b": int(b), "c": int(c),
                               "v1": str(o1.value), "v2": str(o2.value)})
        elif o1.kind == "rt":
            ctx.check(o1.exc.value == o2.exc.value, key + ":error-value-differs")
        return [o1, o2]
    raise AssertionError(k)
