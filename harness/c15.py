"""C15 -- indexing, slicing and sub-sequence functions follow the sequence model.

Symbolic: every index argument (SymInt in [-R, R]), the characters / elements of the
sequences searched by find/find_last (3-symbol alphabet).  Real code: NodeDeref,
NodeDerefAssign, NodeDerefSlice, substr, sublist, find, find_last, insert_at, delete_at,
length, + through Interpreter.interpret.  Oracle: the sequence model below (written from the
property text; runs on proxies and on plain ints alike)."""
from harness.common import run_ckl, vint, vstr, vlist, raise_site
import ckl.values as V

FUNCTIONS = ["ckl.nodes.NodeDeref.evaluate", "ckl.nodes.NodeDerefAssign.evaluate",
             "ckl.nodes.NodeDerefSlice.evaluate", "ckl.functions.FuncSubstr.execute",
             "ckl.functions.FuncSublist.execute", "ckl.functions.FuncFind.execute",
             "ckl.functions.FuncFindLast.execute", "ckl.functions.FuncInsertAt.execute",
             "ckl.functions.FuncDeleteAt.execute", "ckl.values.ValueList.insertAt/deleteAt",
             "ckl.functions.FuncAdd.execute", "ckl.functions.FuncLength.execute",
             "ckl.parser (expression text is parsed by the real parser)"]
OUTSIDE = ["sequences longer than the bound", "indices outside [-R, R]",
           "find_last with a negative start",
           "find with negative start"]
REACH = {"value", "error"}

OPS_IDX = ["index", "assign_at", "delete_at", "index_alias"]
OPS_2 = ["slice2", "substr2", "sublist2", "split_join"]
OPS_1 = ["slice1", "substr1", "sublist1", "insert_at"]
OPS_FIND = ["find", "find_last", "find_start", "find_last_start", "in"]


def bounds(tier):
    return {"max_len": 5 if tier == "quick" else 7, "index_range": 12 if tier == "quick" else 48,
            "find_alphabet": 3, "find_part_len": [0, 3]}


def cells(tier, seed):
    b = bounds(tier)
    out = []
    for n in range(0, b["max_len"] + 1):
        for kind in ("str", "list"):
            for op in OPS_IDX + OPS_1 + OPS_2:
                if kind == "str" and op.startswith("sublist"):
                    continue
                if kind == "list" and op.startswith("substr"):
                    continue
                if kind == "str" and op in ("insert_at", "delete_at"):
                    continue
                if kind == "list" and op == "index_alias":
                    continue
                out.append({"op": op, "kind": kind, "n": n, "R": b["index_range"]})
            for op in OPS_FIND:
                for m in range(0, 4):
                    if kind == "list" and m != 1:
                        continue
                    if m > n + 1:
                        continue
                    out.append({"op": op, "kind": kind, "n": n, "m": m, "R": b["index_range"]})
    return out


# ---- the sequence model ------------------------------------------------------------------
def norm(i, n):
    return i + n if i < 0 else i


def clamp(i, n):
    i = norm(i, n)
    if i < 0:
        return 0
    if i > n:
        return n
    return i


def model_slice(seq, a, b):
    n = len(seq)
    a = clamp(a, n)
    b = clamp(b, n) if b is not None else n
    if a >= b:
        return seq[0:0]
    return seq[int(a):int(b)]


def mk(kind, items):
    if kind == "str":
        r = ""
        for c in items:
            r = r + c
        return vstr(r)
    return vlist([x if isinstance(x, V.Value) else vint(x) for x in items])


def run(ctx, cell):
    op, kind, n, R = cell["op"], cell["kind"], cell["n"], cell["R"]
    key = "C15:%s:%s" % (op, kind)
    if op in OPS_FIND:
        return run_find(ctx, cell, key)
    if kind == "list" and op in ("delete_at", "insert_at", "assign_at", "index"):
        # lists with (possibly) equal elements: positions, not values, identify what changes
        base = [ctx.int("e%d" % q, 0, 1) for q in range(n)]
    else:
        base = list("abcdefgh"[:n]) if kind == "str" else [100 + i for i in range(n)]
    s = mk(kind, base)
    i = ctx.int("i", -R, R)
    env = {"s": s, "i": vint(i)}
    exp_err = False
    exp_after = base
    if op == "index":
        out = run_ckl("s[i]", env)
        k = norm(i, n)
        if k < 0 or k >= n:
            exp_err = True
        else:
            exp = mk(kind, [base[int(k)]]) if kind == "str" else vint(base[int(k)])
    elif op == "index_alias":
        # the element taken out is a value of its own: changing it changes neither the string nor later reads
        env["t"] = mk(kind, base)
        out = run_ckl("def c = s[i]; c[0] = 'Z'; [s, c, s[i], t[i], 'abcdefgh'[i]]", env)
        k = norm(i, n)
        if k < 0 or k >= n:
            exp_err = True
        else:
            ch = mk(kind, [base[int(k)]])
            lit = "abcdefgh"[int(norm(i, 8))] if -8 <= i < 8 else None
            if lit is None:
                exp_err = True
            else:
                exp = vlist([mk(kind, base), vstr("Z"), ch, ch, vstr(lit)])
    elif op == "assign_at":
        env["v"] = vstr("Z") if kind == "str" else vint(999)
        out = run_ckl("s[i] = v; s", env)
        k = norm(i, n)
        if k < 0 or k >= n:
            exp_err = True
        else:
            k = int(k)
            exp_after = base[:k] + ["Z" if kind == "str" else 999] + base[k + 1:]
            exp = mk(kind, exp_after)
    elif op == "delete_at":
        out = run_ckl("def r = delete_at(s, i); [r, s]", env)
        k = norm(i, n)
        if k < 0 or k >= n:
            exp = vlist([V.NULL, mk(kind, base)])
        else:
            k = int(k)
            exp = vlist([vint(base[k]), mk(kind, base[:k] + base[k + 1:])])
    elif op == "insert_at":
        env["v"] = vint(999)
        out = run_ckl("def r = insert_at(s, i, v); [r, s]", env)
        k = i + n + 1 if i < 0 else i      # documented: -1 appends
        if k < 0 or k > n:
            after = base
        else:
            k = int(k)
            after = base[:k] + [999] + base[k:]
        exp = vlist([mk(kind, after), mk(kind, after)])
    elif op in ("slice1", "substr1", "sublist1"):
        text = {"slice1": "s[i to *]", "substr1": "substr(s, i)", "sublist1": "sublist(s, i)"}[op]
        out = run_ckl(text, env)
        exp = mk(kind, model_slice(base, i, None))
    elif op in ("slice2", "substr2", "sublist2"):
        j = ctx.int("j", -R, R)
        env["j"] = vint(j)
        text = {"slice2": "s[i to j]", "substr2": "substr(s, i, j)",
                "sublist2": "sublist(s, i, j)"}[op]
        out = run_ckl(text, env)
        exp = mk(kind, model_slice(base, i, j))
    elif op == "split_join":
        # s[0 to k] + s[k to *] == s  and length law, for every k (also out of range)
        out = run_ckl("[s[0 to i] + s[i to *], length(s[0 to i]) + length(s[i to *]), "
                      "length(s[0 to i]) <= length(s)]", env)
        exp = vlist([mk(kind, base), vint(n), V.TRUE])
    else:
        raise AssertionError(op)
    return verdict(ctx, key, out, exp_err, None if exp_err else exp)


def verdict(ctx, key, out, exp_err, exp):
    if out.kind == "host":
        ctx.fail("%s:host-exception:%s@%s" % (key, out.hostname(), raise_site(out.exc)),
                 str(out.exc))
        ctx.reach("host")
    elif out.kind == "syn":
        ctx.fail(key + ":syntax-error", str(out.exc))
    elif out.kind == "rt":
        ctx.reach("error")
        ctx.check(exp_err, key + ":unexpected-error", lambda: str(out.exc))
    else:
        ctx.reach("value")
        if exp_err:
            ctx.fail(key + ":missing-error", lambda: str(out.value))
        else:
            ctx.check(out.value == exp, key + ":wrong-value",
                      lambda: {"got": str(out.value), "expected": str(exp)})
    return out


def run_find(ctx, cell, key):
    op, kind, n, m, R = cell["op"], cell["kind"], cell["n"], cell["m"], cell["R"]
    A = "abc"
    if kind == "str":
        s = [ctx.char("s%d" % k, 97, 99) for k in range(n)]
        p = [ctx.char("p%d" % k, 97, 99) for k in range(m)]
        sv, pv = mk("str", s), mk("str", p)
    else:
        s = [ctx.int("s%d" % k, 0, 2) for k in range(n)]
        p = [ctx.int("p0", 0, 2)]
        sv, pv = vlist([vint(x) for x in s]), vint(p[0])
    env = {"s": sv, "p": pv}
    start = 0
    if op == "find_start":
        start = ctx.int("start", 0, R)
        env["k"] = vint(start)
        out = run_ckl("find(s, p, start = k)", env)
    elif op == "find_last_start":
        # documented: start is the highest position at which a match may begin
        start = ctx.int("start", 0, R)
        env["k"] = vint(start)
        out = run_ckl("find_last(s, p, start = k)", env)
    elif op == "find":
        out = run_ckl("find(s, p)", env)
    elif op == "find_last":
        out = run_ckl("find_last(s, p)", env)
    else:
        out = run_ckl("p in s", env)
    # model: positions at which the part occurs
    def occurs(k):
        for d in range(m):
            if not (s[k + d] == p[d]):
                return False
        return True
    exp = -1
    if kind == "list" or True:
        rng = range(0, n - m + 1)
        if op in ("find_last", "find_last_start"):
            rng = reversed(rng)
        for k in rng:
            if op == "find_start" and k < start:
                continue
            if op == "find_last_start" and k > start:
                continue
            if occurs(k):
                exp = k
                break
    if op == "in":
        if kind == "str":
            e = V.TRUE if exp >= 0 else V.FALSE
        else:
            e = V.TRUE if exp >= 0 else V.FALSE
        return verdict(ctx, key, out, False, e)
    return verdict(ctx, key, out, False, vint(exp))
