"""C16 -- only documented mutators change their arguments; aliases see mutations.

preserve: every function of the base environment and every syntactic form of C13's list, with
          every argument-kind tuple (int payloads symbolic): the rendered form of every argument
          is compared before and after the call.  Non-mutators must leave all arguments alone;
          the documented mutators (append, append_all, insert_at, delete_at, remove, put, element
          and member assignment) may change their first argument only.
alias   : programs over three list variables and a map/object built from sequences of operations
          chosen by symbolic selectors (aliasing assignment, copying operations, mutators through
          variables / parameters / closures / nested containers, non-mutating library calls),
          read back at the end and compared with a reference heap model (Python object identity).
fresh   : results of non-mutating operations are independent of their inputs.
mutidx  : insert_at / delete_at / element assignment with a symbolic index through an alias: the documented
          effect (none when out of bounds) on the list and on every alias of it."""
import ckl.values as V

from harness import c13
from harness.common import run_ckl, vint, vstr, vlist, vset, vmap, interp, raise_site

FUNCTIONS = c13.FUNCTIONS + ["list.ckl: permutations, append_all, unique", "ckl.values.ValueList.addItems",
                             "ckl.nodes.NodeDerefAssign", "ckl.functions.FuncAppend/FuncPut/FuncRemove/FuncInsertAt/FuncDeleteAt"]
OUTSIDE = ["quick tier: two-argument calls only with a mutable (str/list/set/map/object) first argument",
           "streams (input/output values are stateful by nature)", "operation sequences longer than the bound",
           "arity above 2 in the preservation part"]
REACH = {"preserve", "alias", "fresh"}
TOLERATE_UNSUPPORTED = 5000
DIVERGE_LABEL = "C13:non-termination"
PATH_SECONDS = 8
ORACLE_TIMEOUT = 4
MAX_DECISIONS = 3000

MUTATORS = {"append", "append_all", "insert_at", "delete_at", "remove", "put"}
MUTATING_FORMS = {"x[y] = 1", "x->a = y", "x += y", "x -= y", "x *= y", "x /= y", "x %= y", "x[0] += y",
                  "x[0] /= y", "x->y", "x->a"}     # assignments rebind / element+member assignment
STATEFUL = {"input", "output"}
SKIP = set(c13.SKIP) | {"close", "set_seed"}


def bounds(tier):
    return {"arity": 2, "kinds": len(c13.KINDS), "alias_ops": 3 if tier == "quick" else 4,
            "op_templates": len(OPS)}


RANDOM_FUNCS = {"random", "choice", "choices", "sample"}


def cells(tier, seed):
    out = []
    mutable = {"str", "list", "set", "map", "object"}
    for c in c13.cells("quick", seed):
        if c["kinds"] and "same" not in c["kinds"]:
            if tier == "quick" and len(c["kinds"]) == 2 and c["kinds"][0] not in mutable:
                continue        # quick: two-argument calls only with a mutable first argument
            if tier == "quick" and len(c["kinds"]) == 3 and c["kinds"][0] not in mutable:
                continue
            out.append(dict(c, k2="preserve"))
    n = bounds(tier)["alias_ops"]
    for first in range(len(OPS)):
        out.append({"k": "alias", "first": first, "n": n})
    for i in range(len(FRESH)):
        out.append({"k": "fresh", "i": i})
    for op in MUTIDX:
        for ln in range(0, 4 if tier == "quick" else 6):
            out.append({"k": "mutidx", "op": op, "len": ln, "R": 9 if tier == "quick" else 24})
    return out


# ---- alias programs ----------------------------------------------------------------------------
# (source text, model action).  The model works on python lists with object identity.
def _app(st, v, val):
    st[v].append(val)


OPS = [
    ("b = a", lambda st: st.__setitem__("b", st["a"])),
    ("c = b", lambda st: st.__setitem__("c", st["b"])),
    ("a = c", lambda st: st.__setitem__("a", st["c"])),
    ("b = a + []", lambda st: st.__setitem__("b", list(st["a"]))),
    ("c = sublist(b, 0)", lambda st: st.__setitem__("c", list(st["b"]))),
    ("append(a, 7)", lambda st: st["a"].append(7)),
    ("append(b, 8)", lambda st: st["b"].append(8)),
    ("b !> append(9)", lambda st: st["b"].append(9)),
    ("c[0] = 5", lambda st: st["c"].__setitem__(0, 5)),
    ("insert_at(a, 0, 4)", lambda st: st["a"].insert(0, 4)),
    ("delete_at(b, 0)", lambda st: st["b"].pop(0) if st["b"] else None),
    ("remove(c, 1)", lambda st: st["c"].remove(1)),
    ("append_all(a, [6, 6])", lambda st: st["a"].extend([6, 6])),
    ("def g(p) append(p, 3); g(c)", lambda st: st["c"].append(3)),
    ("def h() b; append(h(), 2)", lambda st: st["b"].append(2)),
    ("def box = [a]; append(box[0], 1)", lambda st: st["a"].append(1)),
    ("sorted(a)", lambda st: None),
    ("a + [9]", lambda st: None),
    ("reverse_list(b)", lambda st: None),
    ("[x * 2 for x in c]", lambda st: None),
    ("def t = sorted(a); append(t, 0)", lambda st: None),
    ("def u = a + b; append(u, 0)", lambda st: None),
    ("def w = sublist(c, 0); w[0] = 0", lambda st: list(st["c"]).__setitem__(0, 0)),
    ("def z = zip(a, b); append(z, 0)", lambda st: None),
    ("permutations(sublist(a, 0, 3))", lambda st: None),
    ("unique(b)", lambda st: None),
    ("put(m, 'k', a)", lambda st: st["m"].__setitem__("k", st["a"])),
    ("append(m['k', c], 1)", lambda st: (st["m"]["k"] if "k" in st["m"] else st["c"]).append(1)),
    ("o->f = b", lambda st: st["o"].__setitem__("f", st["b"])),
    ("append(o->f, 2)", lambda st: st["o"]["f"].append(2)),
]

FRESH = [
    ("def r = a + b; append(r, 0); [a, b]", "[[1, 2], [1]]"),
    ("def r = sorted(a); append(r, 0); a", "[1, 2]"),
    ("def r = sublist(a, 0); r[0] = 0; a", "[1, 2]"),
    ("def r = a[0 to *]; r[0] = 0; a", "[1, 2]"),
    ("def r = zip(a, a); append(r[0], 0); a", "[1, 2]"),
    ("def r = [x for x in a]; append(r, 0); a", "[1, 2]"),
    ("def r = reverse_list(a); append(r, 0); a", "[1, 2]"),
    ("def r = flatten([a, b]); append(r, 0); [a, b]", "[[1, 2], [1]]"),
    ("def r = unique(a); append(r, 0); a", "[1, 2]"),
    ("def r = filter(a, fn(x) TRUE); append(r, 0); a", "[1, 2]"),
    ("def r = map_list(a, fn(x) x); append(r, 0); a", "[1, 2]"),
    ("def r = a * 2; append(r, 0); a", "[1, 2]"),
    ("def r = a - 5; append(r, 0); a", "[1, 2]"),
    ("def s = <<1, 2>>; def r = s + 3; [s, r]", "[<<1, 2>>, <<1, 2, 3>>]"),
    ("def s = <<1, 2>>; def r = s - 1; [s, r]", "[<<1, 2>>, <<2>>]"),
    ("def s = <<1, 2>>; def r = s + <<3>>; remove(r, 1); s", "<<1, 2>>"),
    ("def r = permutations(a); a", "[1, 2]"),
    # member assignment changes exactly the targeted object, never its prototype or siblings
    ("def p = <*count = 0*>; def i1 = <*_proto_ = p*>; def i2 = <*_proto_ = p*>; i1->count = 5; [i1->count, i2->count, p->count]",
     "[5, 0, 0]"),
    ("def p = <*count = 0*>; def i1 = <*_proto_ = p*>; i1->count += 2; [i1->count, p->count]", "[2, 0]"),
    ("def p = <*items = [1]*>; def i1 = <*_proto_ = p*>; i1->items = [9]; [i1->items, p->items]", "[[9], [1]]"),
    ("def p = <*n = 1*>; def q = <*_proto_ = p*>; def i1 = <*_proto_ = q*>; i1['n'] = 7; [i1->n, q->n, p->n]", "[7, 1, 1]"),
    ("def p = <*n = 1*>; def i1 = <*_proto_ = p*>; p->n = 3; [i1->n, p->n]", "[3, 3]"),
    ("def p = <*n = 1*>; def i1 = <*_proto_ = p, n = 2*>; i1->n = 4; [i1->n, p->n]", "[4, 1]"),
    ("def o = <*v = [1]*>; def o2 = o; o2->v = [2]; o->v", "[2]"),
    ("def l = [3, 1, 2]; def r = permutations(l); l", "[3, 1, 2]"),
    # literals are fresh values every time they are evaluated: defaults, loop bodies, function bodies
    ("def collect(x, acc = []) do append(acc, x); acc end; def p = collect(1); def q = collect(2); [p, q]", "[[1], [2]]"),
    ("def mk(m = <<<>>>) m; def p = mk(); def q = mk(); put(p, 1, 2); [p, q]", "[<<<1 => 2>>>, <<<>>>]"),
    ("def mk(s = <<>>) s; def p = mk(); def q = mk(); append(p, 1); [p, q]", "[<<1>>, <<>>]"),
    ("def mk(o = <*n = 0*>) o; def p = mk(); def q = mk(); p->n = 5; [p->n, q->n]", "[5, 0]"),
    ("def mk(l = [1, [2]]) l; def p = mk(); def q = mk(); append(p[1], 3); [p, q]", "[[1, [2, 3]], [1, [2]]]"),
    ("def f = fn(acc = [0]) do acc[0] += 1; acc end; [f(), f(), f()]", "[[1], [1], [1]]"),
    ("def mk() [1, 2]; def p = mk(); def q = mk(); append(p, 3); [p, q]", "[[1, 2, 3], [1, 2]]"),
    ("def r = []; for i in [1, 2] do def l = []; append(l, i); append(r, l) end; r", "[[1], [2]]"),
    ("def mk() <*items = []*>; def p = mk(); def q = mk(); append(p->items, 1); [p->items, q->items]", "[[1], []]"),
    ("def r = [[] for i in [1, 2]]; append(r[0], 1); r", "[[1], []]"),
    ("def mk(x, l = [x]) l; def p = mk(1); def q = mk(1); append(p, 2); [p, q]", "[[1, 2], [1]]"),
]


def render(m):
    if isinstance(m, list):
        return "[" + ", ".join(render(x) for x in m) + "]"
    if isinstance(m, dict):
        return "{" + ", ".join("%s: %s" % (k, render(v)) for k, v in sorted(m.items())) + "}"
    return str(m)


MUTIDX = ["insert_at", "delete_at", "assign"]


def run_mutidx(ctx, cell):
    """a positional mutator with a SYMBOLIC index, applied through an alias: the list changes exactly as documented
    (out-of-bounds: not at all), every alias (variable, container element, closure) sees the same list, an equal
    but distinct list does not"""
    ctx.reach("alias")
    op, n, R = cell["op"], cell["len"], cell["R"]
    key = "C16:mutidx:" + op
    base = [10 + q for q in range(n)]
    i = ctx.int("i", -R, R)
    env = {"a": vlist([vint(x) for x in base]), "i": vint(i)}
    call = {"insert_at": "insert_at(b, i, 99)", "delete_at": "delete_at(b, i)", "assign": "b[i] = 99"}[op]
    text = ("def b = a; def box = [a]; def g() a; def other = a + []; def m = <<<'k' => a>>>; "
            "def r = do %s; 'ok' catch all 'err' end; [r, a, b, box[0], g(), m['k'], other]" % call)
    out = run_ckl(text, env)
    exp_r = "ok"
    if op == "insert_at":
        k = i + n + 1 if i < 0 else i          # documented: -1 appends; out of bounds: not changed at all
        after = base if (k < 0 or k > n) else base[:int(k)] + [99] + base[int(k):]
    elif op == "delete_at":
        k = i + n if i < 0 else i
        after = base if (k < 0 or k >= n) else base[:int(k)] + base[int(k) + 1:]
    else:
        k = i + n if i < 0 else i
        if k < 0 or k >= n:
            after, exp_r = base, "err"
        else:
            after = base[:int(k)] + [99] + base[int(k) + 1:]
    detail = lambda: {"program": text, "list": base, "i": int(i), "got": ctx.plain(out)}
    if out.kind != "ok":
        ctx.fail("%s:%s:%s" % (key, out.kind, out.hostname() or "error"), detail)
        return out
    A = lambda: vlist([vint(x) for x in after])
    exp = vlist([vstr(exp_r), A(), A(), A(), A(), A(), vlist([vint(x) for x in base])])
    ctx.check(out.value == exp, key + ":list-or-alias-differs-from-documented-effect",
              lambda: dict(detail(), expected=str(exp)))
    return out


def run(ctx, cell):
    if cell["k"] == "mutidx":
        return run_mutidx(ctx, cell)
    if cell.get("k2") == "preserve":
        return run_preserve(ctx, cell)
    if cell["k"] == "alias":
        return run_alias(ctx, cell)
    if cell["k"] == "fresh":
        ctx.reach("fresh")
        text, exp = FRESH[cell["i"]]
        out = run_ckl(text, {"a": vlist([vint(1), vint(2)]), "b": vlist([vint(1)])})
        if out.kind != "ok":
            ctx.fail("C16:fresh:%d:%s" % (cell["i"], out.kind), str(out.exc))
            return out
        ctx.check(str(out.value) == exp, "C16:fresh:input-changed-through-result[%s]" % text.split(";")[0],
                  {"text": text, "got": str(out.value), "expected": exp})
        return out
    raise AssertionError(cell)


def run_preserve(ctx, cell):
    ctx.reach("preserve")
    kinds = list(cell["kinds"])
    for i, kd in enumerate(kinds):
        if kd is None:
            kinds[i] = c13.KINDS[ctx.choice("kind%d" % i, len(c13.KINDS))]
    names = ["x", "y", "z"][:len(kinds)]
    env = {n: c13.mkarg(ctx, kd, n, cell.get("f") in c13.ENUM_INTS) for n, kd in zip(names, kinds)}
    if cell["k"] == "func":
        f = cell["f"]
        if f in SKIP:
            return ["skip"]
        text = "set_seed(1); %s(%s)" % (f, ", ".join(names))
        if f in RANDOM_FUNCS:
            # the generator state is environment: every seed of a small range, and lists long enough for
            # a draw to repeat
            text = "set_seed(%d); %s(%s)" % (ctx.choice("seed", 4), f, ", ".join(names))
            if kinds[0] == "list":
                env["x"] = [vlist([vint(1), vint(2), vint(3)]), vlist([vint(1), vint(1), vint(2)]),
                            vlist([vstr("a"), vstr("b")]), env["x"]][ctx.choice("rl", 4)]
        key = "C16:preserve:%s(%s)" % (f, ",".join(kinds))
        may_change_first = f in MUTATORS
    else:
        text = c13.FORMS[cell["i"]]
        f = text
        key = "C16:preserve:form[%s](%s)" % (text, ",".join(kinds))
        may_change_first = text in MUTATING_FORMS
    from harness.common import srepr
    before = {n: str(srepr(v)) for n, v in env.items()}
    it = interp()
    it.setStandardInput(V.StringInput("line1\nline2\n"))
    out = run_ckl(text, env, it=it)
    for n, kd in zip(names, kinds):
        if kd in STATEFUL or kd == "func":
            continue
        if n == "x" and may_change_first:
            continue
        after = str(srepr(env[n]))
        ctx.check(after == before[n], key + ":argument-%s-changed" % n,
                  {"text": text, "before": before[n], "after": after})
    return [out.kind]


def run_alias(ctx, cell):
    ctx.reach("alias")
    n = cell["n"]
    idx = [cell["first"]] + [ctx.choice("op%d" % i, len(OPS)) for i in range(1, n)]
    st = {"a": [1, 2], "b": [1], "c": [1, 2, 3], "m": {}, "o": {"f": None}}
    st["o"]["f"] = st["c"]
    prog = ["def a = [1, 2]", "def b = [1]", "def c = [1, 2, 3]", "def m = <<<>>>", "def o = <*f = c*>"]
    model_err = False
    for i in idx:
        text, act = OPS[i]
        prog.append("do %s end" % text)
        if not model_err:
            try:
                act(st)
            except (IndexError, ValueError, KeyError):
                model_err = True      # the language raises here; stop the model at the same point
    prog.append("[a, b, c, m, o->f]")
    text = "; ".join(prog)
    out = run_ckl(text)
    key = "C16:alias"
    detail = lambda: {"program": text, "got": ctx.plain(out)}
    if out.kind == "host":
        ctx.fail("%s:host-exception:%s" % (key, out.hostname()), detail)
        return out
    if model_err:
        return [out.kind]         # index/removal errors: C15's subject, only the prefix matters
    if out.kind != "ok":
        # delete/remove on short lists may legitimately fail in the language where python succeeded?
        ctx.fail(key + ":unexpected-" + out.kind, detail)
        return out
    exp = "[%s, %s, %s, %s, %s]" % (render(st["a"]), render(st["b"]), render(st["c"]),
                                    "<<<" + ", ".join("'%s' => %s" % (k, render(v)) for k, v in sorted(st["m"].items())) + ">>>",
                                    render(st["o"]["f"]))
    ctx.check(str(out.value) == exp, key + ":differs-from-heap-model",
              lambda: {"program": text, "got": str(out.value), "expected": exp})
    return out
