"""C17 -- dates and day numbers convert one-to-one; date arithmetic is calendar-correct.

Cells are years.  date->number: year concrete, month and day symbolic.  number->date: the day
number is a SymInt constrained to the year's interval (the year loop is folded by the bounds,
the month loop forks at month boundaries, the day stays a term) -- every calendar day of the
year is covered without enumerating days.  Oracle: Python's proleptic Gregorian ordinal
(datetime.date.toordinal), independent of ckl.date."""
import datetime as _dt

from harness.common import run_ckl, vint, guard, raise_site
import ckl.date as D
import ckl.values as V

FUNCTIONS = ["ckl.date.is_leap_year", "ckl.date.year_days", "ckl.date.month_days",
             "ckl.date.to_oa_date", "ckl.date.to_date", "ckl.values.ValueDate.asInt",
             "ckl.values.ValueInt.asDate", "ckl.functions.FuncAdd.execute (date branch)",
             "ckl.functions.FuncSub.execute (date branches)", "ckl.functions.FuncInt/FuncDate"]
OUTSIDE = ["time of day (floating point tail): quick tier = CONCRETE sweep of all 86400 seconds on a ladder of days "
           "(evidence of the conversion code, not a solver result); thorough tier additionally decides the round trip "
           "for all 86400 times of 3 fixed days as one QF_BVFP obligation each (symex.fpkernel traces the real "
           "to_oa_date/to_date on FP terms, cvc5 decides); a symbolic day is out of reach (>50 min, both solvers)",
           "microseconds", "strptime/strftime based conversions", "years outside 1900..9999"]
ASSUMPTIONS = ["datetime.datetime field validation is modelled by symex.symdate.SymDateTime.make",
               "oracle: datetime.date.toordinal() is the proleptic Gregorian day count"]
REACH = {"to_oa", "to_date", "arith", "tod"}
PATH_SECONDS = 1500
CELL_SECONDS = 2400
ORACLE_TIMEOUT = 90
MAX_DECISIONS = 200000
MAX_FOLDED = 20000000

BASE = _dt.date(1899, 12, 30).toordinal()
QUICK_YEARS = [1900, 1901, 1903, 1904, 1969, 1970, 1971, 1972, 1999, 2000, 2001, 2024, 2099,
               2100, 2101, 2399, 2400, 2401, 9998, 9999]


def bounds(tier):
    return {"years": "boundary set + 24 stride years" if tier == "quick" else "all 1900..9999",
            "arith_offsets": "[-800, 800]"}


def N(y, m, d):
    """day number of y-m-d (d may be symbolic)"""
    return _dt.date(y, m, 1).toordinal() - BASE + (d - 1)


def dim(y, m):
    nxt = _dt.date(y + (m == 12), m % 12 + 1, 1) if not (y == 9999 and m == 12) else None
    return 31 if nxt is None else (nxt - _dt.date(y, m, 1)).days


def cells(tier, seed):
    if tier == "quick":
        import random
        r = random.Random(seed)
        years = sorted(set(QUICK_YEARS + [r.randrange(1900, 10000) for _ in range(24)]))
        ar_years = [1900, 1969, 1970, 1999, 2000, 2100, 9997]
    else:
        years = list(range(1900, 10000))
        ar_years = sorted(set(QUICK_YEARS[:-2] + list(range(1903, 9997, 7))))
    out = []
    for y in years:
        out.append({"k": "to_oa", "y": y})
        out.append({"k": "to_date", "y": y})
    for y in ar_years:
        for m in (1, 2, 3, 12):
            out.append({"k": "arith", "y": y, "m": m})
    # time of day: floating point tail, concrete sweep (outside the solver claim, see OUTSIDE)
    days = [(1900, 1, 1), (1970, 1, 1), (2017, 4, 5), (2026, 10, 3), (9999, 12, 31)]
    if tier != "quick":
        days += [(1900 + 2 ** i // 365, 6, 15) for i in range(9, 22)]
    for d in days:
        for h in range(24):
            out.append({"k": "tod", "date": list(d), "hour": h})
        out.append({"k": "api", "date": list(d)})
    if tier != "quick":
        # the same round trip as ONE floating point obligation per day over all 86400 times (cvc5)
        for d in [(1900, 1, 1), (2017, 4, 5), (2026, 10, 3)]:
            out.append({"k": "todfp", "date": list(d)})
    return out


class FakeDate:
    def __init__(self, y, m, d):
        self.year, self.month, self.day = y, m, d
        self.hour = self.minute = self.second = self.microsecond = 0


def mkdate(y, m, d):
    """a datetime whose day may be symbolic"""
    if isinstance(d, int):
        return _dt.datetime(y, m, d)
    from symex.symdate import SymDateTime
    return SymDateTime(year=y, month=m, day=d)


def run(ctx, cell):
    k, y = cell["k"], cell.get("y")
    if k == "to_oa":
        ctx.reach("to_oa")
        m = ctx.int("m", 1, 12)
        d = ctx.int("d", 1, 31)
        out = guard(D.to_oa_date, FakeDate(y, m, d))
        mm = int(m)                      # the code iterates range(month): concrete per path
        ctx.assume(d <= dim(y, mm))
        if out.kind != "ok":
            ctx.fail("C17:to_oa_date:host-exception:%s" % out.hostname(), str(out.exc))
            return out
        ctx.check(out.value == N(y, mm, d), "C17:to_oa_date:wrong-day-number",
                  lambda: {"date": [y, mm, int(d)], "got": float(out.value),
                           "expected": int(N(y, mm, d))})
        # through the value API: int(date) and decimal(date)
        return [out.kind, out.value]
    if k == "to_date":
        ctx.reach("to_date")
        lo, hi = N(y, 1, 1), N(y, 12, 31)
        n = ctx.int("n", lo, hi)
        out = guard(D.to_date, n)
        if out.kind != "ok":
            ctx.fail("C17:to_date:host-exception:%s@%s" % (out.hostname(), raise_site(out.exc)),
                     lambda: {"n": int(n), "exc": str(out.exc)})
            return out
        r = out.value
        ok = ctx.check(r.year == y, "C17:to_date:wrong-year", lambda: {"n": int(n), "year": int(r.year)})
        if ok:
            mm = int(r.month)
            ctx.check(N(y, mm, r.day) == n, "C17:to_date:wrong-date",
                      lambda: {"n": int(n), "got": [int(r.year), mm, int(r.day)]})
            ctx.check((r.hour == 0) & (r.minute == 0) & (r.second == 0),
                      "C17:to_date:midnight-lost", lambda: {"n": int(n)})
        # value API: date(n) then int(...) is the identity
        o2 = run_ckl("int(date(n)) == n", {"n": vint(n)})
        if o2.kind != "ok":
            ctx.fail("C17:int-date-inverse:%s" % o2.kind, lambda: str(o2.exc))
        else:
            ctx.check(o2.value == V.TRUE, "C17:int-date-inverse:not-identity", lambda: {"n": int(n)})
        return [out.kind, [r.year, r.month, r.day, r.hour, r.minute, r.second]]
    if k == "todfp":
        ctx.reach("tod")
        y, m, d = cell["date"]
        label = "C17:time-of-day:round-trip-loses-the-second"
        if not ctx.symbolic:
            h, mi, se = ctx.inputs.get("h", 0), ctx.inputs.get("mi", 0), ctx.inputs.get("s", 0)
            src = _dt.datetime(y, m, d, h, mi, se)
            back = D.to_date(D.to_oa_date(src))
            if back.replace(microsecond=0) != src or back.microsecond >= 1000:
                ctx.fail(label, {"date": src.isoformat(), "back": back.isoformat()})
            return ["fp"]
        from symex import fpkernel as K
        K.register()
        tr = K.start()
        h, mi, se = tr.var("h", 5, 0, 23, 13), tr.var("mi", 6, 0, 59, 37), tr.var("s", 6, 0, 59, 42)
        src = FakeDate(y, m, d)
        src.hour, src.minute, src.second = h, mi, se
        import z3
        try:
            back = D.to_date(D.to_oa_date(src))
        except Exception as e:       # the sample time itself fails: concrete violation
            ctx.candidates.append((label, "sample time fails: %r" % (e,), {"h": 13, "mi": 37, "s": 42}))
            return ["fp"]
        def term(v):
            return v.t if isinstance(v, K.BV) else z3.BitVecVal(int(v), K.W)
        goal = z3.And(term(back.year) == y, term(back.month) == m, term(back.day) == d, term(back.hour) == h.t,
                      term(back.minute) == mi.t, term(back.second) == se.t)
        res, model, st = K.decide(tr, goal, timeout_s=900)
        ctx.e.stats.obligations += 1
        ctx.e.stats.queries += 1
        ctx.e.stats.solver_s += st["seconds"]
        ctx.note("fp", st)
        if res == "unsat":
            ctx.e.stats.discharged += 1
            ctx.e.stats.unsat += 1
        elif res == "sat":
            ctx.e.stats.sat += 1
            ctx.candidates.append((label, {"date": [y, m, d], "model": model, "solver": st},
                                   {"h": model.get("h", 0), "mi": model.get("mi", 0), "s": model.get("s", 0)}))
        else:
            ctx.e.stats.unknown += 1
            ctx.unknowns.append(label)
        return ["fp"]
    if k == "tod":
        ctx.reach("tod")
        y, m, d = cell["date"]
        h = cell["hour"]
        bad = 0
        step = 1 if y < 2200 else 7          # far years: the year loop makes every conversion slow
        for mi in range(60):
            for se in range(0, 60, step):
                src = _dt.datetime(y, m, d, h, mi, se)
                back = D.to_date(D.to_oa_date(src))
                if back.replace(microsecond=0) != src or back.microsecond >= 1000:
                    if back != src:
                        bad += 1
                        if bad <= 2:
                            ctx.fail("C17:time-of-day:round-trip-loses-the-second",
                                     {"date": src.isoformat(), "back": back.isoformat()})
        return [bad]
    if k == "api":
        # the same conversions through the language: date(decimal(x)), date(int(x)), int / decimal of a date
        ctx.reach("tod")
        y, m, d = cell["date"]
        h = ctx.choice("h", 24)
        mi = (0, 30, 59)[ctx.choice("mi", 3)]
        se = (0, 59)[ctx.choice("s", 2)]
        src = V.ValueDate(_dt.datetime(y, m, d, h, mi, se))
        day = V.ValueDate(_dt.datetime(y, m, d))
        out = run_ckl("[date(decimal(x)) == x, date(int(x)) == day, int(x) == int(day), decimal(x) >= int(x), "
                      "decimal(x) < int(x) + 1, date(decimal(day)) == day]", {"x": src, "day": day})
        detail = lambda: {"date": str(src), "got": ctx.plain(out)}
        if out.kind != "ok":
            ctx.fail("C17:api:%s:%s" % (out.kind, out.hostname() or "runtime-error"), detail)
            return out
        ctx.check(str(out.value) == "[TRUE, TRUE, TRUE, TRUE, TRUE, TRUE]", "C17:api:number-and-date-conversions-not-inverse", detail)
        return out
    if k == "arith":
        ctx.reach("arith")
        m = cell["m"]
        d = ctx.int("d", 1, dim(y, m))
        n = ctx.int("n", -800, 800)
        ctx.assume(N(y, m, d) + n >= N(1900, 1, 1))
        ctx.assume(N(y, m, d) + n <= N(9999, 12, 31))
        dv = V.ValueDate(mkdate(y, m, d))
        out = run_ckl("[(d + n) - n == d, (d + n) - d == n, int(d + n) == int(d) + n]",
                      {"d": dv, "n": vint(n)})
        if out.kind != "ok":
            ctx.fail("C17:arith:%s:%s" % (out.kind, out.hostname() or "runtime-error"),
                     lambda: {"date": [y, m, int(d)], "n": int(n), "exc": str(out.exc)})
            return out
        items = out.value.value
        for i, what in enumerate(("add-sub-n", "add-sub-d", "int-add")):
            ctx.check(items[i] == V.TRUE, "C17:arith:" + what,
                      lambda: {"date": [y, m, int(d)], "n": int(n)})
        return out
    raise AssertionError(k)
