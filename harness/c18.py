"""C18 -- string functions satisfy the algebra of strings.

Symbolic: s, t, a, b as strings of concrete length over unconstrained characters.  Real code:
contains, find, `in`, starts_with, ends_with, length, +, chr/ord, trim, upper/lower, substr
natives and the .ckl implementations replace, join, reverse, q, esc, unlines, unwords, s,
sprintf through Interpreter.interpret.  Oracles: the mathematical definitions below.
split/join inverse goes through the C `re` module: finite domain (solver drives, does not add
reach)."""
import ckl.values as V

from harness.common import run_ckl, vint, vstr, vlist, vdec, raise_site, b_and, b_or, b_not, schr, sord

FUNCTIONS = ["ckl.functions.FuncContains/FuncFind/FuncStartsWith/FuncEndsWith/FuncLength/FuncAdd/FuncChr/"
             "FuncOrd/FuncTrim/FuncUpper/FuncLower/FuncSubstr/FuncS/FuncSplit/FuncEscapePattern",
             "ckl.nodes.NodeIn", "string.ckl: reverse, replace, join, q, esc", "core.ckl: unlines, unwords, sprintf"]
OUTSIDE = ["strings longer than the bounds", "split/split2/lines/words/matches on symbolic strings (C re module): "
           "finite domain only", "case mapping of non-ASCII characters outside a 6-character pool",
           "replace with an empty search string: only termination is checked"]
REACH = {"laws", "split", "interp"}
SEPS = ["|", ".", ",", "*", "+", "(", "[", "\\", "^", "$", "?", "ab", " "]


def bounds(tier):
    q = tier == "quick"
    return {"s_len": 3 if q else 4, "t_len": 2, "split_subject_len": 3 if q else 4, "separators": len(SEPS)}


def cells(tier, seed):
    b = bounds(tier)
    out = []
    for ls in range(0, b["s_len"] + 1):
        for lt in range(0, b["t_len"] + 1):
            out.append({"k": "contains", "ls": ls, "lt": lt})
            if ls <= 2:
                out.append({"k": "concat", "ls": ls, "lt": lt})
            for lb in (0, 1, 2):
                if ls <= (3 if tier == "quick" else 4) and lt >= 1 and ls + lb <= 5:
                    out.append({"k": "replace", "ls": ls, "la": lt, "lb": lb})
        out.append({"k": "reverse", "ls": ls})
        out.append({"k": "case", "ls": ls})
        out.append({"k": "trim", "ls": ls})
        out.append({"k": "replace_empty", "ls": ls})
    out.append({"k": "chrord"})
    for n in range(0, 4):
        for lsep in (0, 1, 2):
            out.append({"k": "join", "n": n, "lsep": lsep})
    for si in range(len(SEPS)):
        out.append({"k": "split", "sep": si, "n": b["split_subject_len"]})
    for fmt in ["", "#5", "#-5", "#05", "#x", "#04x", "#.2", "#06.2", "#8"]:
        for kind in ("int", "str", "dec"):
            if fmt in ("#x", "#04x") and kind != "int":
                continue
            if fmt in ("#.2", "#06.2") and kind != "dec":
                continue
            if fmt == "#05" and kind == "str":
                continue
            out.append({"k": "interp", "fmt": fmt, "kind": kind})
    for form in range(6):
        out.append({"k": "sprintf", "form": form})
    for lx in (0, 1, 2):
        for lmid in (0, 1):
            for ly in (0, 1):
                out.append({"k": "interp2", "lx": lx, "lmid": lmid, "ly": ly})
    return out


def occurs_at(s, t, k):
    r = True
    for d in range(len(t)):
        r = b_and(r, s[k + d] == t[d])
    return r


def first_occurrence(s, t):
    for k in range(0, len(s) - len(t) + 1):
        if occurs_at(s, t, k):
            return k
    return -1


def T(v):
    return v.value


def fail_out(ctx, key, out, detail):
    ctx.fail("%s:%s:%s" % (key, out.kind, out.hostname() or "runtime-error"), detail)


def run(ctx, cell):
    k = cell["k"]
    key = "C18:" + k
    if k == "contains":
        ctx.reach("laws")
        s, t = ctx.str("s", cell["ls"]), ctx.str("t", cell["lt"])
        out = run_ckl("[contains(s, t), find(s, t), t in s, starts_with(s, t), ends_with(s, t), length(s), "
                      "find_last(s, t)]", {"s": vstr(s), "t": vstr(t)})
        detail = lambda: {"s": str(s), "t": str(t), "got": ctx.plain(out)}
        if out.kind != "ok":
            fail_out(ctx, key, out, detail)
            return out
        c, f, i, sw, ew, ln, fl = out.value.value
        exp = first_occurrence(s, t)
        ctx.check(T(f) == exp, key + ":find-not-first-occurrence", detail)
        ctx.check(T(c) == (exp >= 0), key + ":contains-disagrees-with-find", detail)
        ctx.check(T(i) == (exp >= 0), key + ":in-disagrees-with-find", detail)
        exp_sw = occurs_at(s, t, 0) if len(t) <= len(s) else False
        exp_ew = occurs_at(s, t, len(s) - len(t)) if len(t) <= len(s) else False
        ctx.check(T(sw) == exp_sw, key + ":starts_with-wrong", detail)
        ctx.check(T(ew) == exp_ew, key + ":ends_with-wrong", detail)
        ctx.check(T(ln) == len(s), key + ":length-wrong", detail)
        if exp >= 0:
            ctx.check(T(fl) >= exp, key + ":find_last-before-find", detail)
        else:
            ctx.check(T(fl) == -1, key + ":find_last-finds-absent-part", detail)
        return out
    if k == "concat":
        ctx.reach("laws")
        a, b = ctx.str("a", cell["ls"]), ctx.str("b", cell["lt"])
        out = run_ckl("def ab = a + b; [starts_with(ab, a), ends_with(ab, b), length(ab) == length(a) + length(b), "
                      "contains(ab, a), contains(ab, b), substr(ab, 0, length(a)) == a, "
                      "substr(ab, length(a)) == b, find(ab, a) == 0, ab]", {"a": vstr(a), "b": vstr(b)})
        detail = lambda: {"a": str(a), "b": str(b), "got": ctx.plain(out)}
        if out.kind != "ok":
            fail_out(ctx, key, out, detail)
            return out
        r = out.value.value
        for i, what in enumerate(["starts_with(a+b,a)", "ends_with(a+b,b)", "length(a+b)", "contains(a+b,a)",
                                  "contains(a+b,b)", "substr-prefix", "substr-suffix", "find(a+b,a)==0"]):
            ctx.check(T(r[i]), key + ":" + what, detail)
        ctx.check(T(r[8]) == a + b, key + ":concatenation-wrong", detail)
        return out
    if k == "replace":
        ctx.reach("laws")
        s, a, b = ctx.str("s", cell["ls"]), ctx.str("a", cell["la"]), ctx.str("b", cell["lb"])
        out = run_ckl("replace(s, a, b)", {"s": vstr(s), "a": vstr(a), "b": vstr(b)})
        detail = lambda: {"s": str(s), "a": str(a), "b": str(b), "got": ctx.plain(out)}
        if out.kind != "ok":
            fail_out(ctx, key, out, detail)
            return out
        # reference: left to right, non-overlapping
        res = ""
        i = 0
        while i < len(s):
            if i + len(a) <= len(s) and occurs_at(s, a, i):
                res = res + b
                i += len(a)
            else:
                res = res + s[i]
                i += 1
        ctx.check(T(out.value) == res, key + ":not-left-to-right-non-overlapping", detail)
        return out
    if k == "replace_empty":
        ctx.reach("laws")
        s = ctx.str("s", cell["ls"])
        out = run_ckl("replace(s, '', 'x')", {"s": vstr(s)})
        if out.kind == "host":
            fail_out(ctx, key, out, lambda: {"s": str(s), "exc": str(out.exc)[:100]})
        return [out.kind]
    if k == "reverse":
        ctx.reach("laws")
        s = ctx.str("s", cell["ls"])
        out = run_ckl("[reverse(reverse(s)) == s, reverse(s), length(reverse(s))]", {"s": vstr(s)})
        detail = lambda: {"s": str(s), "got": ctx.plain(out)}
        if out.kind != "ok":
            fail_out(ctx, key, out, detail)
            return out
        inv, r, ln = out.value.value
        ctx.check(T(inv), key + ":not-an-involution", detail)
        ctx.check(T(ln) == len(s), key + ":length-changed", detail)
        rv = T(r)
        if len(rv) == len(s):
            for i in range(len(s)):
                ctx.check(rv[i] == s[len(s) - 1 - i], key + ":wrong-character", detail)
        return out
    if k == "case":
        ctx.reach("laws")
        s = ctx.str("s", cell["ls"])
        POOL = "äßİǰσÉ"
        for ch in list(s):
            c = ch < "\x80"
            for pch in POOL:
                c = b_or(c, ch == pch)
            ctx.assume(c)
        out = run_ckl("[upper(upper(s)) == upper(s), lower(lower(s)) == lower(s), upper(s), lower(s)]",
                      {"s": vstr(s)})
        detail = lambda: {"s": str(s), "got": ctx.plain(out)}
        if out.kind != "ok":
            fail_out(ctx, key, out, detail)
            return out
        ctx.check(T(out.value.value[0]), key + ":upper-not-idempotent", detail)
        ctx.check(T(out.value.value[1]), key + ":lower-not-idempotent", detail)
        return out
    if k == "trim":
        ctx.reach("laws")
        s = ctx.str("s", cell["ls"])
        out = run_ckl("[trim(trim(s)) == trim(s), trim(s), contains(s, trim(s))]", {"s": vstr(s)})
        detail = lambda: {"s": str(s), "got": ctx.plain(out)}
        if out.kind != "ok":
            fail_out(ctx, key, out, detail)
            return out
        ctx.check(T(out.value.value[0]), key + ":not-idempotent", detail)
        ctx.check(T(out.value.value[2]), key + ":result-not-a-substring", detail)
        t = T(out.value.value[1])
        WS = " \t\n\r"
        if len(t) > 0:
            for w in WS:
                ctx.check(t[0] != w, key + ":leading-whitespace-left", detail)
                ctx.check(t[len(t) - 1] != w, key + ":trailing-whitespace-left", detail)
        return out
    if k == "chrord":
        ctx.reach("laws")
        n = ctx.int("n", 0, 0x10FFFF)
        ctx.assume(b_or(n < 0xD800, n > 0xDFFF))
        out = run_ckl("[ord(chr(n)), chr(ord(chr(n))) == chr(n), length(chr(n))]", {"n": vint(n)})
        detail = lambda: {"n": int(n), "got": ctx.plain(out)}
        if out.kind != "ok":
            fail_out(ctx, key, out, detail)
            return out
        ctx.check(T(out.value.value[0]) == n, key + ":ord-chr-not-identity", detail)
        ctx.check(T(out.value.value[1]), key + ":chr-ord-not-identity", detail)
        ctx.check(T(out.value.value[2]) == 1, key + ":chr-not-one-character", detail)
        return out
    if k == "join":
        ctx.reach("laws")
        n, lsep = cell["n"], cell["lsep"]
        parts = [ctx.str("p%d" % i, ctx.choice("l%d" % i, 3)) for i in range(n)]      # empty parts included
        sep = ctx.str("sep", lsep)
        out = run_ckl("[join(l, sep), unlines(l), unwords(l), q(l)]",
                      {"l": vlist([vstr(p) for p in parts]), "sep": vstr(sep)})
        detail = lambda: {"parts": [str(p) for p in parts], "sep": str(sep), "got": ctx.plain(out)}
        if out.kind != "ok":
            fail_out(ctx, key, out, detail)
            return out
        for res, sp in zip(out.value.value, [sep, "\n", " ", "|"]):
            exp = ""
            for i, p in enumerate(parts):
                if i:
                    exp = exp + sp
                exp = exp + p
            ctx.check(T(res) == exp, key + ":not-the-separated-concatenation", detail)
        return out
    if k == "split":
        ctx.reach("split")
        sep = SEPS[cell["sep"]]
        n = cell["n"]
        # subject over {separator characters, 'a'}: which is symbolic, the text is concrete per path
        alphabet = sorted(set(sep)) + ["a"]
        chars = [alphabet[ctx.choice("c%d" % i, len(alphabet))] for i in range(n)]
        nn = ctx.choice("len", n + 1)
        s = "".join(chars[:nn])
        out = run_ckl("def parts = split(s, escape_pattern(sep)); [join(parts, sep), parts, "
                      "split(join(['a', 'b', ''], sep), escape_pattern(sep))]", {"s": vstr(s), "sep": vstr(sep)})
        detail = lambda: {"s": s, "sep": sep, "got": ctx.plain(out)}
        if out.kind != "ok":
            fail_out(ctx, key, out, detail)
            return out
        j, parts, back = out.value.value
        ctx.check(T(j) == s, key + ":join-does-not-invert-split", detail)
        for p in parts.value:
            ctx.check(sep not in T(p), key + ":part-contains-separator", detail)
        ctx.check([T(x) for x in back.value] == ["a", "b", ""], key + ":split-does-not-invert-join", detail)
        return out
    if k == "interp":
        ctx.reach("interp")
        fmt, kind = cell["fmt"], cell["kind"]
        pre, post = ctx.str("pre", 2), ctx.str("post", 1)
        for ch in list(pre) + list(post):
            ctx.assume(b_and(ch != "{", ch != "}"))
        if kind == "int":
            x = ctx.int("x", 0, 255) if "x" in fmt else ctx.int("x", -99999, 99999)
            xv = vint(x)
        elif kind == "str":
            x = ctx.str("x", 2)
            xv = vstr(x)
        else:
            x = (1.2345678, -0.5, 12.0, 100.126)[ctx.choice("x", 4)]
            xv = vdec(x)
        text = pre + "{x" + fmt + "}" + post
        out = run_ckl("s(t)", {"t": vstr(text), "x": xv})
        detail = lambda: {"template": str(text), "x": ctx.plain(xv), "got": ctx.plain(out)}
        if out.kind != "ok":
            fail_out(ctx, key + ":" + fmt, out, detail)
            return out
        got = T(out.value)
        # expected rendering of the placeholder
        spec = fmt[1:]
        left = spec.startswith("-")
        if left:
            spec = spec[1:]
        zero = spec.startswith("0")
        if zero:
            spec = spec[1:]
        hexa = spec.endswith("x")
        if hexa:
            spec = spec[:-1]
        digits = None
        if "." in spec:
            spec, d = spec.split(".")
            digits = int(d or "0")
        width = int(spec or "0")
        if kind == "str":
            body = x
        elif kind == "int":
            xi = int(x) if (hexa or digits is not None) else x
            if hexa:
                body = "%x" % xi
            elif digits is not None:
                body = str(round(float(xi), digits))
            else:
                from harness.common import sstr
                body = sstr(x)
        else:
            body = str(round(x, digits)) if digits is not None else repr(V.ValueDecimal(x))
        pad = width - len(body)
        if pad > 0:
            fill = ("0" if zero else " ") * pad
            body = (body + fill) if left else (fill + body)
        exp = pre + body + post
        ctx.check(got == exp, key + ":%s:%s:wrong-interpolation" % (fmt, kind), detail)
        return out
    if k == "interp2":
        ctx.reach("interp")
        x, mid, y = ctx.str("x", cell["lx"]), ctx.str("mid", cell["lmid"]), ctx.str("y", cell["ly"])
        pre = ctx.str("pre", 1)
        for ch in list(mid) + list(pre):
            ctx.assume(b_and(ch != "{", ch != "}"))
        text = pre + "{x}" + mid + "{y}" + mid + "{x}"
        out = run_ckl("s(t)", {"t": vstr(text), "x": vstr(x), "y": vstr(y)})
        detail = lambda: {"template": str(text), "x": str(x), "y": str(y), "got": ctx.plain(out)}
        if out.kind != "ok":
            fail_out(ctx, key, out, detail)
            return out
        ctx.check(T(out.value) == pre + x + mid + y + mid + x, key + ":placeholders-not-all-interpolated", detail)
        return out
    if k == "sprintf":
        ctx.reach("interp")
        from harness.common import sstr
        a, b = ctx.int("a", -999, 999), ctx.str("b", 1)
        sa = sstr(a)
        pad = lambda w: " " * max(0, w - len(sa))
        # (template, number of arguments, position of a, position of b, expected text)
        forms = [
            ("<{0}|{1}|{0#5}>", 2, 0, 1, lambda: "<" + sa + "|" + b + "|" + pad(5) + sa + ">"),
            # two-digit placeholder indices next to the one-digit index that is their prefix
            ("{10}-{1}-{10#4}|{1}{0}", 11, 10, 1, lambda: sa + "-" + b + "-" + pad(4) + sa + "|" + b + "0"),
            ("{1}{11}{0#3}|{11}", 12, 11, 1, lambda: b + sa + "  0|" + sa),
            # text that only looks like the start of a placeholder is ordinary text
            ("x{1", 2, 0, 1, lambda: "x{1"),
            ("{0}{1", 2, 0, 1, lambda: sa + "{1"),
            ("{1}{0#4}{0", 2, 0, 1, lambda: b + pad(4) + sa + "{0"),
        ]
        tmpl, nargs, pa, pb, exp = forms[cell.get("form", 0)]
        env, names = {}, []
        for q in range(nargs):
            nm = "p%d" % q
            names.append(nm)
            env[nm] = vint(a) if q == pa else (vstr(b) if q == pb else vint(q))
        text = "sprintf('%s', %s)" % (tmpl, ", ".join(names))
        out = run_ckl(text, env)
        detail = lambda: {"call": text, "a": int(a), "b": str(b), "got": ctx.plain(out)}
        if out.kind != "ok":
            fail_out(ctx, key, out, detail)
            return out
        ctx.check(T(out.value) == exp(), key + ":wrong", detail)
        return out
    raise AssertionError(k)


def bool_of(x):
    return x
