"""C19 -- collection and numeric library functions satisfy their defining laws.

folds  : sum, prod, reduce, min, max, reverse, zip, enumerate, pairs, chunks, flatten, filter,
         map_list, unique, range/interval on lists of <= 4 (thorough 5) unbounded symbolic ints
         against textbook definitions (computed on the same symbolic values).
ostat  : median_low / median_high / median(odd) / min / max against the counting
         characterisation of order statistics (permutation invariance is a corollary).
mean   : mean / median(even) go through float division: finite domain, all permutations.
sets   : union / intersection / diff / symmetric_diff over a small mixed domain (hashed).
exact  : pow(x, y) with x unbounded symbolic and y in 0..12; abs, sign unbounded; gcd / lcm on
         [-20, 20]^2 (finite); plus concrete witnesses beyond 2^53.
bits   : the 32-bit bitwise natives with a, b symbolic 32-bit words (bit-vector reasoning) and
         every shift count 0..40 against z3's own bit-vector operations."""
import math

import ckl.values as V

from harness.common import run_ckl, vint, vstr, vlist, vset, vdec, raise_site, b_and, b_or, b_not

FUNCTIONS = ["list.ckl: reduce, prod, map_list, unique, filter, flatten, reverse", "set.ckl: union, intersection, diff, symmetric_diff",
             "stat.ckl: mean, median, median_low, median_high", "core.ckl: min, max, pairs, chunks, enumerate, interval",
             "math.ckl: abs, sign, gcd, lcm", "ckl.functions.FuncSum/FuncRange/FuncZip/FuncPow/FuncBit*"]
OUTSIDE = ["lists longer than the bound", "mean/median of even-length lists on symbolic values (float division)",
           "gcd/lcm outside [-20, 20]; lcm(0, 0)", "pow with negative exponent", "bitwise natives with negative arguments",
           "sets over values outside the 6-value domain"]
REACH = {"folds", "ostat", "sets", "exact", "bits", "mean"}
DOM = None


def dom():
    return [vint(0), vint(1), vint(2), vint(3), vdec(1.0), vstr("a")]


def bounds(tier):
    return {"list_len": 4 if tier == "quick" else 5, "set_list_len": 2 if tier == "quick" else 3,
            "mean_len": 3 if tier == "quick" else 4, "pow_exponent": 12,
            "gcd_range": 20, "shift_counts": "0..40"}


FOLDS = ["sum", "prod", "reduce", "reverse", "zip", "enumerate", "pairs", "chunks", "flatten", "filter",
         "map_list", "unique", "range", "interval", "minmax", "grouped"]
BITS = ["bit_and", "bit_or", "bit_xor", "bit_not", "bit_rotate_left", "bit_rotate_right",
        "bit_shift_left", "bit_shift_right"]


def cells(tier, seed):
    b = bounds(tier)
    out = []
    for n in range(0, b["list_len"] + 1):
        for f in FOLDS:
            if f in ("prod", "reduce", "minmax") and n == 0:
                continue
            out.append({"k": "folds", "f": f, "n": n})
        if n >= 1:
            for f in ("median_low", "median_high", "median", "min", "max"):
                if f == "median" and n % 2 == 0:
                    continue
                out.append({"k": "ostat", "f": f, "n": n})
            if n <= b["mean_len"]:
                out.append({"k": "mean", "n": n})
    for f in ("union", "intersection", "diff", "symmetric_diff"):
        for na in range(0, b["set_list_len"] + 1):
            for nb in range(0, 3):
                out.append({"k": "sets", "f": f, "na": na, "nb": nb})
    from harness.common import SEQ_SET_OPS
    for first in range(len(SEQ_SET_OPS)):
        out.append({"k": "setseq", "first": first, "n": 3 if tier == "quick" else 4})
    for y in range(0, b["pow_exponent"] + 1):
        out.append({"k": "pow", "y": y})
    out.append({"k": "powwitness"})
    out.append({"k": "abssign"})
    for a in range(-b["gcd_range"], b["gcd_range"] + 1):
        out.append({"k": "gcd", "a": a})
    for f in BITS:
        if f in ("bit_and", "bit_or", "bit_xor", "bit_not"):
            out.append({"k": "bits", "f": f, "n": 0})
        else:
            for n in range(0, 41):
                out.append({"k": "bits", "f": f, "n": n})
    return out


def T(v):
    return v.value


def ints(ctx, n, name="x"):
    return [ctx.int("%s%d" % (name, i)) for i in range(n)]


def ilist(xs):
    return vlist([vint(x) for x in xs])


def fail_out(ctx, key, out, detail):
    ctx.fail("%s:%s:%s" % (key, out.kind, out.hostname() or "runtime-error"), detail)


def count(conds):
    c = 0
    for x in conds:
        c = c + ((x + 0) if not isinstance(x, bool) else int(x))
    return c


def run(ctx, cell):
    k = cell["k"]
    if k == "folds":
        return run_folds(ctx, cell)
    if k == "ostat":
        return run_ostat(ctx, cell)
    if k == "mean":
        return run_mean(ctx, cell)
    if k == "sets":
        return run_sets(ctx, cell)
    if k == "setseq":
        return run_setseq(ctx, cell)
    if k in ("pow", "powwitness", "abssign", "gcd"):
        return run_exact(ctx, cell)
    if k == "bits":
        return run_bits(ctx, cell)
    raise AssertionError(k)


def run_folds(ctx, cell):
    ctx.reach("folds")
    f, n = cell["f"], cell["n"]
    key = "C19:" + f
    xs = ints(ctx, n) if f != "unique" else [ctx.int("x%d" % i, -1, 2) for i in range(n)]
    l = ilist(xs)
    env = {"l": l}
    if f == "sum":
        text, exp = "sum(l)", vint(sum(xs, 0))
    elif f == "prod":
        p = 1
        for x in xs:
            p = p * x
        text, exp = "prod(l)", vint(p)
    elif f == "reduce":
        acc = xs[0]
        for x in xs[1:]:
            acc = acc - x
        text, exp = "reduce(l, sub)", vint(acc)
    elif f == "reverse":
        # (in the legacy environment String->reverse shadows List->reverse)
        text, exp = "require List; List->reverse(l)", ilist(list(reversed(xs)))
    elif f == "zip":
        ys = ints(ctx, max(0, n - 1), "y")
        env["m"] = ilist(ys)
        text, exp = "zip(l, m)", vlist([ilist([a, b]) for a, b in zip(xs, ys)])
    elif f == "enumerate":
        text, exp = "enumerate(l)", vlist([ilist([i, x]) for i, x in enumerate(xs)])
    elif f == "pairs":
        text, exp = "pairs(l)", vlist([ilist([xs[i], xs[i + 1]]) for i in range(n - 1)])
    elif f == "chunks":
        c = 1 + ctx.choice("c", 3)
        if n == 0:
            return ["skip"]
        text = "chunks(l, %d)" % c
        exp = vlist([ilist(xs[i:i + c]) for i in range(0, n, c)])
    elif f == "flatten":
        h = n // 2
        env["l"] = vlist([ilist(xs[:h]), ilist([]), ilist(xs[h:])])
        text, exp = "flatten(l)", ilist(xs)
    elif f == "filter":
        text, exp = "filter(l, fn(x) x > 0)", ilist([x for x in xs if x > 0])
    elif f == "map_list":
        text, exp = "map_list(l, fn(x) x * 2 + 1)", ilist([x * 2 + 1 for x in xs])
    elif f == "unique":
        res = []
        for x in xs:
            if not any(x == y for y in res):
                res.append(x)
        text, exp = "unique(l)", ilist(res)
    elif f == "range":
        a = ctx.int("a", -3, 3)
        b = ctx.int("b", -3, 4)
        st = (-3, -2, 3, -1)[ctx.choice("st", 4)]
        env = {"a": vint(a), "b": vint(b), "st": vint(st)}
        text = "[range(a, b), range(b), range(a, b, 2), range(b, a, -1), range(a, b, step = st), range(b, a, step = st)]"
        ia, ib = int(a), int(b)
        exp = vlist([ilist(list(range(ia, ib))), ilist(list(range(ib))), ilist(list(range(ia, ib, 2))),
                     ilist(list(range(ib, ia, -1))), ilist(list(range(ia, ib, st))), ilist(list(range(ib, ia, st)))])
    elif f == "interval":
        a = ctx.int("a", -3, 3)
        b = ctx.int("b", -3, 4)
        env = {"a": vint(a), "b": vint(b)}
        text = "[interval(a, b), interval(b)]"
        ia, ib = int(a), int(b)
        exp = vlist([ilist(list(range(ia, ib + 1))), ilist(list(range(1, ib + 1)))])
    elif f == "grouped":
        # ints, decimals and strings with duplicates and 1 versus 1.0
        from harness.common import vdec, vstr
        pool = [vint(1), vdec(1.0), vint(2), vdec(2.5), vstr("a")]
        if n > 4:
            return ["skip"]
        els = [pool[ctx.choice("g%d" % i, len(pool))] for i in range(n)]
        env = {"l": vlist(els)}
        groups = []
        for e in els:
            if groups and groups[-1][0] == e:
                groups[-1].append(e)
            else:
                groups.append([e])
        text, exp = "grouped(l)", vlist([vlist(g) for g in groups])
        xs = []
        out = run_ckl(text, env)
        detail = lambda: {"list": str(env["l"]), "got": ctx.plain(out), "expected": str(exp)}
        if out.kind != "ok":
            fail_out(ctx, key, out, detail)
            return out
        ctx.check(str(out.value) == str(exp), key + ":differs-from-definition", detail)
        return out
    elif f == "minmax":
        text = "[min(l), max(l)]"
        out = run_ckl(text, env)
        detail = lambda: {"list": [int(x) for x in xs], "got": ctx.plain(out)}
        if out.kind != "ok":
            fail_out(ctx, key, out, detail)
            return out
        mn, mx = T(out.value.value[0]), T(out.value.value[1])
        for x in xs:
            ctx.check(mn <= x, key + ":min-not-minimal", detail)
            ctx.check(mx >= x, key + ":max-not-maximal", detail)
        ctx.check(any_eq(mn, xs), key + ":min-not-an-element", detail)
        ctx.check(any_eq(mx, xs), key + ":max-not-an-element", detail)
        return out
    else:
        raise AssertionError(f)
    out = run_ckl(text, env)
    detail = lambda: {"list": [int(x) for x in xs], "text": text, "got": ctx.plain(out), "expected": str(exp)}
    if out.kind != "ok":
        fail_out(ctx, key, out, detail)
        return out
    ctx.check(out.value == exp, key + ":differs-from-definition", detail)
    ctx.check(out.value.type() == exp.type(), key + ":wrong-kind", detail)
    return out


def any_eq(v, xs):
    r = False
    for x in xs:
        r = b_or(r, v == x)
    return r


def run_ostat(ctx, cell):
    ctx.reach("ostat")
    f, n = cell["f"], cell["n"]
    key = "C19:" + f
    xs = ints(ctx, n)
    out = run_ckl("%s(l)" % f, {"l": ilist(xs)})
    detail = lambda: {"list": [int(x) for x in xs], "got": ctx.plain(out)}
    if out.kind != "ok":
        fail_out(ctx, key, out, detail)
        return out
    r = T(out.value)
    kidx = {"median_low": (n - 1) // 2, "median_high": n // 2, "median": n // 2, "min": 0, "max": n - 1}[f]
    # r is the k-th smallest: an element with  #(x < r) <= k  and  #(x <= r) >= k + 1
    ctx.check(any_eq(r, xs), key + ":result-not-an-element", detail)
    ctx.check(count([x < r for x in xs]) <= kidx, key + ":too-many-smaller-elements", detail)
    ctx.check(count([x <= r for x in xs]) >= kidx + 1, key + ":too-few-elements-up-to-result", detail)
    return out


def run_mean(ctx, cell):
    ctx.reach("mean")
    n = cell["n"]
    vals = (-3, 0, 2, 7, 2 ** 60)
    xs = [vals[ctx.choice("x%d" % i, len(vals))] for i in range(n)]
    perm = ctx.perm("p", n)
    ys = [xs[i] for i in perm]
    key = "C19:mean"
    out = run_ckl("[mean(a) == mean(b), median(a) == median(b), mean(a), median(a)]",
                  {"a": ilist(xs), "b": ilist(ys)})
    detail = lambda: {"a": xs, "b": ys, "got": ctx.plain(out)}
    if out.kind != "ok":
        fail_out(ctx, key, out, detail)
        return out
    ctx.check(T(out.value.value[0]), key + ":mean-not-permutation-invariant", detail)
    ctx.check(T(out.value.value[1]), "C19:median:not-permutation-invariant", detail)
    s = sorted(xs)
    if all(abs(x) < 2 ** 50 for x in xs):
        ctx.check(T(out.value.value[2]) == sum(xs) / n, key + ":wrong-value", detail)
        med = s[n // 2] if n % 2 else (s[n // 2 - 1] + s[n // 2]) / 2.0
        ctx.check(T(out.value.value[3]) == med, "C19:median:wrong-value", detail)
    return out


def run_sets(ctx, cell):
    ctx.reach("sets")
    f, na, nb = cell["f"], cell["na"], cell["nb"]
    key = "C19:" + f
    d = dom()
    a = [d[ctx.choice("a%d" % i, len(d))] for i in range(na)]
    b = [d[ctx.choice("b%d" % i, len(d))] for i in range(nb)]
    aslist = ctx.choice("aslist", 2)
    va = vlist(a) if aslist else vset(a)
    vb = vlist(b) if aslist else vset(b)
    out = run_ckl("%s(a, b)" % f, {"a": va, "b": vb})
    detail = lambda: {"a": str(va), "b": str(vb), "got": ctx.plain(out)}
    if out.kind != "ok":
        fail_out(ctx, key, out, detail)
        return out
    ina = lambda x: any(x == y for y in a)
    inb = lambda x: any(x == y for y in b)
    pred = {"union": lambda x: ina(x) or inb(x), "intersection": lambda x: ina(x) and inb(x),
            "diff": lambda x: ina(x) and not inb(x),
            "symmetric_diff": lambda x: ina(x) != inb(x)}[f]
    exp = vset([x for x in a + b if pred(x)])
    ctx.check(out.value.isSet(), key + ":result-not-a-set", detail)
    ctx.check(out.value == exp, key + ":not-the-set-operation", detail)
    return out


def run_setseq(ctx, cell):
    """set algebra must see the CURRENT elements of a set that has been enumerated and mutated"""
    ctx.reach("sets")
    from harness.common import SEQ_SET_OPS, seq_model
    idx = [cell["first"]] + [ctx.choice("op%d" % i, len(SEQ_SET_OPS)) for i in range(1, cell["n"])]
    ops = [SEQ_SET_OPS[i] for i in idx]
    prog = ("def s = <<1, 3, 4>>; " + "; ".join("do %s catch all NULL end" % o for o in ops) +
            "; def t = <<2, 3, 5, 9>>; [union(s, <<>>), intersection(s, t), diff(s, t), symmetric_diff(s, t), "
            "union(t, s), unique(list(s)), sorted(s), [x in s for x in [1, 2, 3, 4, 5]]]")
    out = run_ckl(prog)
    cur = set(seq_model("set", ops))
    t = {2, 3, 5, 9}
    detail = {"program": prog, "got": ctx.plain(out), "current_elements": sorted(cur)}
    if out.kind != "ok":
        fail_out(ctx, "C19:setseq", out, detail)
        return out
    u, i, d, sd, u2, uq, so, mem = out.value.value
    mk = lambda xs: vset([vint(x) for x in xs])
    ctx.check(u == mk(cur), "C19:setseq:union-after-mutation", detail)
    ctx.check(i == mk(cur & t), "C19:setseq:intersection-after-mutation", detail)
    ctx.check(d == mk(cur - t), "C19:setseq:diff-after-mutation", detail)
    ctx.check(sd == mk(cur ^ t), "C19:setseq:symmetric_diff-after-mutation", detail)
    ctx.check(u2 == mk(cur | t), "C19:setseq:union-after-mutation", detail)
    ctx.check(uq == ilist(sorted(cur)), "C19:setseq:unique-after-mutation", detail)
    ctx.check(so == ilist(sorted(cur)), "C19:setseq:sorted-after-mutation", detail)
    ctx.check([m.value for m in mem.value] == [x in cur for x in [1, 2, 3, 4, 5]], "C19:setseq:membership-after-mutation", detail)
    return out


def run_exact(ctx, cell):
    ctx.reach("exact")
    k = cell["k"]
    if k == "pow":
        y = cell["y"]
        x = ctx.int("x")
        out = run_ckl("pow(x, %d)" % y, {"x": vint(x)})
        detail = lambda: {"x": int(x), "y": y, "got": ctx.plain(out)}
        if out.kind != "ok":
            fail_out(ctx, "C19:pow", out, detail)
            return out
        e = 1
        for _ in range(y):
            e = e * x
        ctx.check(out.value.isInt(), "C19:pow:not-an-int", detail)
        ctx.check(T(out.value) == e, "C19:pow:not-the-integer-power", detail)
        return out
    if k == "powwitness":
        ws = [(3, 40), (2 ** 31 + 1, 3), (-7, 23), (10, 23), (2, 64), (2 ** 53 + 1, 1), (-(2 ** 53) - 1, 1), (0, 0)]
        x, y = ws[ctx.choice("w", len(ws))]
        out = run_ckl("pow(x, y)", {"x": vint(x), "y": vint(y)})
        detail = lambda: {"x": x, "y": y, "got": ctx.plain(out)}
        if out.kind != "ok":
            fail_out(ctx, "C19:pow", out, detail)
            return out
        ctx.check(out.value.isInt() and isinstance(T(out.value), int), "C19:pow:not-an-int", detail)
        ctx.check(T(out.value) == x ** y, "C19:pow:not-the-integer-power", detail)
        return out
    if k == "abssign":
        x = ctx.int("x")
        out = run_ckl("[abs(x), sign(x)]", {"x": vint(x)})
        detail = lambda: {"x": int(x), "got": ctx.plain(out)}
        if out.kind != "ok":
            fail_out(ctx, "C19:abs", out, detail)
            return out
        a, s = T(out.value.value[0]), T(out.value.value[1])
        ctx.check(b_and(a >= 0, b_or(a == x, a == -x)), "C19:abs:wrong", detail)
        ctx.check(b_or(b_or(b_and(x > 0, s == 1), b_and(x < 0, s == -1)), b_and(x == 0, s == 0)),
                  "C19:sign:wrong", detail)
        return out
    if k == "gcd":
        a = cell["a"]
        R = 20
        b = ctx.int("b", -R, R)
        bi = int(b)          # finite domain: Euclid's recursion follows the values
        out = run_ckl("[gcd(a, b), if a == 0 and b == 0 then 0 else lcm(a, b)]", {"a": vint(a), "b": vint(bi)})
        detail = lambda: {"a": a, "b": bi, "got": ctx.plain(out)}
        if out.kind != "ok":
            fail_out(ctx, "C19:gcd", out, detail)
            return out
        g, l = T(out.value.value[0]), T(out.value.value[1])
        ctx.check(g == math.gcd(a, bi), "C19:gcd:not-the-greatest-common-divisor", detail)
        exp_l = 0 if (a == 0 or bi == 0) else abs(a * bi) // math.gcd(a, bi)
        ctx.check(l == exp_l, "C19:lcm:not-the-least-common-multiple", detail)
        return out
    raise AssertionError(k)


def run_bits(ctx, cell):
    ctx.reach("bits")
    f, n = cell["f"], cell["n"]
    key = "C19:" + f
    a = ctx.word("a", 32)
    M = 0xFFFFFFFF
    if f in ("bit_and", "bit_or", "bit_xor"):
        b = ctx.word("b", 32)
        out = run_ckl("%s(a, b)" % f, {"a": vint(a), "b": vint(b)})
        exp = {"bit_and": a & b, "bit_or": a | b, "bit_xor": a ^ b}[f]
    elif f == "bit_not":
        out = run_ckl("bit_not(a)", {"a": vint(a)})
        exp = (~a) & M
    else:
        out = run_ckl("%s(a, %d)" % (f, n), {"a": vint(a)})
        r = n % 32
        if f == "bit_rotate_left":
            exp = ((a << r) | (a >> (32 - r))) & M
        elif f == "bit_rotate_right":
            exp = ((a >> r) | (a << (32 - r))) & M
        elif f == "bit_shift_left":
            exp = (a << n) & M
        else:
            exp = a >> n if n < 64 else 0
    detail = lambda: {"a": int(a), "n": n, "got": ctx.plain(out), "expected": int(exp)}
    if out.kind != "ok":
        fail_out(ctx, key, out, detail)
        return out
    ctx.check(T(out.value) == exp, key + ":not-the-32-bit-result", detail)
    return out
