"""C20 -- reported source lines are the lines where the reported construct starts.

tokens : for every seed and every token boundary, the separator is a symbolic layout string
         (whitespace / CR / LF / # comment) of length <= 2 (thorough 3), also before the first
         token and after the last; Lexer.scan must stamp every token with the file name given
         and line 1 + (number of LF before its first character) -- the count is a solver term.
faults : programs with one planted fault (undefined name, type error, error statement,
         division by zero, syntax fault, the same inside a called function / a user module)
         preceded by symbolic layout; CklSyntaxError.pos / CklRuntimeError.pos / stack trace
         entries must name the line where the construct begins."""
import os
import tempfile

from ckl.lexer import Lexer
from ckl.errors import CklRuntimeError, CklSyntaxError

from harness import tokens as T
from harness.common import guard, interp, run_ckl, vlist, vstr, raise_site
import ckl.values as V

FUNCTIONS = ["ckl.lexer.Lexer.scan (position bookkeeping)", "ckl.lexer.SourcePos", "ckl.parser.parse*",
             "ckl.nodes.*.evaluate (pos of raised errors)", "ckl.nodes.invoke (stack trace entries)",
             "ckl.nodes.NodeRequire.evaluate (module file name)"]
OUTSIDE = ["columns (not part of the property)", "CR characters inside module files (text-mode reading translates them)", "more than one non-canonical gap at a time",
           "gaps longer than the bound"]
REACH = {"tokens", "fault"}

FAULTS = [
    ("undef", "undefined_name", "rt"),
    ("error", "error 'boom'", "rt"),
    ("div0", "1 / 0", "rt"),
    ("type", "1 + fn(x) x < [1]", None),      # placeholder replaced below
    ("syntax", ")", "syn"),
    ("infunc", "def f(x) do\n  x;\n  undefined_name\nend;\nf(1)", "rt"),
]
FAULTS[3] = ("type", "not 1", "rt")


# a fault inside a function that a NATIVE library function calls back (two lines below the call)
CALLBACKS = ["sorted([2, 1], key = fn(x) do\n  x;\n  undefined_name\nend)",
             "sorted([2, 1], cmp = fn(p, q) do\n  p;\n  error 'boom'\nend)",
             "find([1, 2], 2, key = fn(x) do\n  x;\n  not 1\nend)",
             "find_last([1, 2], 2, key = fn(x) do\n  x;\n  undefined_name\nend)",
             "eval(parse('def g(x) do\\n  x;\\n  undefined_name\\nend;\\ng(1)'))"]


def bounds(tier):
    return {"gap_len": 2 if tier == "quick" else 3, "seeds": len(T.SEEDS),
            "fault_programs": len(FAULTS) + 1}


def cells(tier, seed):
    b = bounds(tier)
    out = []
    for si, s in enumerate(T.SEEDS):
        pcs = T.seed_pieces(s)
        if pcs is None:
            continue
        for gap in range(0, len(pcs) + 1):
            for n in range(1, b["gap_len"] + 1):
                out.append({"k": "tokens", "seed": si, "gap": gap, "n": n})
    for fi in range(len(FAULTS)):
        for n in range(0, b["gap_len"] + 1):
            for m in range(0, 2):
                out.append({"k": "fault", "f": fi, "n": n, "m": m})
    for n in range(0, 3):
        out.append({"k": "module", "n": n})
        out.append({"k": "twomods", "n": n})
    for q in ("'", '"'):
        for n in range(1, b["gap_len"] + 1):
            out.append({"k": "strnl", "quote": q, "n": n})
    for i in range(len(CALLBACKS)):
        for n in range(0, b["gap_len"] + 1):
            out.append({"k": "callback", "i": i, "n": n})
    for i in range(len(INNER)):
        for n in range(1, b["gap_len"] + 1):
            out.append({"k": "inner", "i": i, "n": n})
    return out


# the faulty token sits INSIDE an expression; `@` marks a symbolic layout gap directly before it.
# The reported line must be the line on which the faulty token (or the construct it starts) begins.
INNER = [
    "1 +@undefined_q", "f(1,@undefined_q)", "[1,@undefined_q]", "7 !>@undefined_q()", "7 !>@undefined_q(2)",
    "Lib->@undefined_q", "7 !> Lib->@undefined_q()", "if TRUE then@undefined_q", "def z =@undefined_q", "not@undefined_q",
    "<<<1 =>@undefined_q>>>", "g(a =@undefined_q)", "1 +@error 'boom'", "[x for x in@undefined_q]", "for i in@undefined_q do 1 end",
    "undefined_q@+ 1", "-@undefined_q", "(@undefined_q)", "1 <@undefined_q < 3", "TRUE and@undefined_q",
    "1 +@(2 / 0)", "1 +@[1, 2][7]", "id(@undefined_q)", "7 !> id() !>@undefined_q()",
]


def count_nl(chars):
    c = 0
    for ch in chars:
        c = c + ((ch == "\n") + 0)
    return c


def build(pcs, gap_index, gap):
    """text and, per token, the list of separator chars before it"""
    text = ""
    before = []
    seen = []
    for i, (sp, sep) in enumerate(pcs):
        if i == gap_index:
            for ch in gap:
                text = text + ch
                seen.append(ch)
        before.append(list(seen))
        text = text + sp
        for ch in sp:
            seen.append(ch)
        if i + 1 != gap_index or not len(gap):
            text = text + sep
            for ch in sep:
                seen.append(ch)
    if gap_index == len(pcs):
        for ch in gap:
            text = text + ch
    return text, before


def run(ctx, cell):
    k = cell["k"]
    if k == "tokens":
        ctx.reach("tokens")
        pcs = T.seed_pieces(T.SEEDS[cell["seed"]])
        gap = ctx.str("g", cell["n"])
        T.layout_ok(ctx, gap)
        text, before = build(pcs, cell["gap"], list(gap))
        out = guard(lambda: Lexer(text, "file.ckl").scan())
        if out.kind != "ok":
            ctx.fail("C20:tokens:lexer-%s" % out.kind, lambda: str(out.exc))
            return out
        toks = out.value.tokens
        if not ctx.check(len(toks) == len(pcs), "C20:tokens:count-changed-by-layout",
                         lambda: {"text": str(text), "tokens": [str(t) for t in toks]}):
            return ["count", len(toks)]
        lines = []
        for i, t in enumerate(toks):
            exp = 1 + count_nl(before[i])
            ctx.check(t.pos.line == exp, "C20:tokens:wrong-line",
                      lambda: {"text": str(text), "token": str(t.value), "line": int(t.pos.line),
                               "expected": int(exp)})
            ctx.check(t.pos.filename == "file.ckl", "C20:tokens:wrong-filename")
            lines.append(t.pos.line)
        return ["lines", lines]
    if k == "fault":
        ctx.reach("fault")
        name, src, kind = FAULTS[cell["f"]]
        g1 = ctx.str("g", cell["n"])
        T.layout_ok(ctx, g1)
        g2 = ctx.str("h", cell["m"])
        T.layout_ok(ctx, g2)
        text = "def a = 1;" + g1 + "def b = 2;" + g2 + src
        base = 1 + count_nl(list(g1)) + count_nl(list(g2))
        out = run_ckl(text, name="prog.ckl")
        if out.kind != kind:
            ctx.fail("C20:fault:%s:unexpected-outcome-%s" % (name, out.kind), lambda: str(out.exc))
            return out
        e = out.exc
        fault_line = base + (2 if name == "infunc" else 0)
        ctx.check(e.pos is not None and e.pos.filename == "prog.ckl",
                  "C20:fault:%s:wrong-filename" % name, lambda: str(e.pos))
        if e.pos is not None:
            ctx.check(e.pos.line == fault_line, "C20:fault:%s:wrong-line" % name,
                      lambda: {"text": str(text), "reported": int(e.pos.line),
                               "expected": int(fault_line)})
        if name == "infunc":
            st = [str(s) for s in e.stacktrace]
            ok = len(st) >= 1
            ctx.check(ok, "C20:fault:infunc:no-stacktrace")
            if ok:
                call_line = base + 4
                ctx.check(st[0].endswith("prog.ckl:%d:1" % int(call_line)) or
                          (":%d:" % int(call_line)) in st[0],
                          "C20:fault:infunc:stacktrace-wrong-line",
                          lambda: {"text": str(text), "entry": st[0], "expected_line": int(call_line)})
            # every entry belongs to this error: one call deep, this file
            ctx.check(len(st) == 1 and all("prog.ckl:" in x for x in st), "C20:fault:infunc:stacktrace-has-foreign-entries",
                      lambda: {"text": str(text), "entries": st})
            # ... also for a later error in another file, after this one (caught or not) has been handled
            from harness.common import fresh_interp
            first = run_ckl("do " + "f(1)" + " catch all 0 end", name="prog.ckl")
            out2 = run_ckl("def g(y) do\n  undefined_other\nend;\n" + g1 + "g(2)", name="second.ckl", it=fresh_interp())
            if out2.kind == "rt":
                st2 = [str(x) for x in out2.exc.stacktrace]
                line2 = 4 + count_nl(list(g1))
                ctx.check(len(st2) == 1 and all("second.ckl:%d:" % int(line2) in x for x in st2),
                          "C20:fault:infunc:stacktrace-of-later-error-has-foreign-entries",
                          lambda: {"entries": st2, "expected_line": int(line2)})
            else:
                ctx.fail("C20:fault:infunc:second-program-unexpected-outcome-%s" % out2.kind)
        return [out.kind, e.pos.line if e.pos is not None else None]
    if k == "inner":
        ctx.reach("fault")
        tmpl = INNER[cell["i"]]
        gap = ctx.str("g", cell["n"])
        T.layout_ok(ctx, gap)
        pre = "def f(a, b) a; def g(a) a; def id(a) a; def Lib = <*v = 1*>;\n"
        head, tail = tmpl.split("@")
        text = pre + head + gap + tail
        exp = 2 + count_nl(list(gap))
        if tmpl.startswith("undefined_q@"):
            exp = 2
        out = run_ckl(text, name="prog.ckl")
        key = "C20:inner[%s]" % tmpl
        detail = lambda: {"text": str(text), "reported": str(out.exc.pos) if out.exc is not None else None,
                          "expected_line": int(exp)}
        if out.kind not in ("rt", "syn"):
            return [out.kind]               # e.g. `Lib->undefined_q` is NULL, not an error: nothing to locate
        e = out.exc
        if e.pos is None:
            ctx.fail(key + ":no-position", detail)
            return [out.kind]
        ctx.check(e.pos.filename == "prog.ckl", key + ":wrong-filename", detail)
        ctx.check(e.pos.line == exp, key + ":wrong-line", detail)
        return [out.kind, e.pos.line]
    if k == "module":
        ctx.reach("fault")
        g = ctx.str("g", cell["n"])
        T.layout_ok(ctx, g)
        for ch in list(g):
            # module files are read in text mode: universal newlines turn a lone CR into LF,
            # so "line" is ambiguous for CR-only files -- outside the claim
            ctx.assume(ch != "\r")
        # (the module file may begin with layout: blank lines before the first token count too)
        g0 = ctx.str("g0", 1 if cell["n"] else 0)
        T.layout_ok(ctx, g0)
        for ch in list(g0):
            ctx.assume(ch != "\r")
        body = g0 + "def ok = 1;" + g + "def bad = undefined_name"
        d = tempfile.mkdtemp(prefix="c20mod")
        try:
            with open(os.path.join(d, "c20mod.ckl"), "w", encoding="utf-8") as f:
                f.write(str(body))
            from harness.common import fresh_interp
            out = run_ckl("require c20mod; 1", {"checkerlang_module_path": vlist([vstr(d)])},
                          it=fresh_interp(), name="prog.ckl")
        finally:
            try:
                os.remove(os.path.join(d, "c20mod.ckl"))
                os.rmdir(d)
            except OSError:
                pass
        if out.kind != "rt":
            ctx.fail("C20:module:unexpected-outcome-%s" % out.kind, lambda: str(out.exc or out.value))
            return out
        e = out.exc
        exp = 1 + count_nl(list(g0)) + count_nl(list(g))
        ctx.check(e.pos is not None and "c20mod" in str(e.pos.filename),
                  "C20:module:error-does-not-name-module", lambda: str(e.pos))
        if e.pos is not None:
            ctx.check(e.pos.line == exp, "C20:module:wrong-line",
                      lambda: {"reported": int(e.pos.line), "expected": int(exp)})
        return [out.kind, str(e.pos.filename) if e.pos is not None else None]
    if k == "callback":
        ctx.reach("fault")
        g = ctx.str("g", cell["n"])
        T.layout_ok(ctx, g)
        src = CALLBACKS[cell["i"]]
        text = "def a = 1;" + g + "def r = " + src
        base = 1 + count_nl(list(g))
        out = run_ckl(text, name="prog.ckl")
        key = "C20:callback[%s]" % src.split("(")[0]
        detail = lambda: {"text": str(text), "reported": str(out.exc.pos) if out.exc is not None else None,
                          "expected_line": int(base + 2)}
        if out.kind != "rt" or out.exc.pos is None:
            ctx.fail(key + ":unexpected-outcome-%s" % out.kind, detail)
            return out
        e = out.exc
        if src.startswith("eval"):
            # the evaluated text is its own source: its line 3
            ctx.check(e.pos.line == 3, key + ":wrong-line", detail)
        else:
            ctx.check(e.pos.filename == "prog.ckl" and e.pos.line == base + 2, key + ":wrong-line", detail)
        return [out.kind, e.pos.line]
    if k == "strnl":
        # line breaks INSIDE a string literal count like any other: the fault sits behind a multi-line string
        ctx.reach("fault")
        q = cell["quote"]
        g = ctx.str("g", cell["n"])
        for ch in list(g):
            ctx.assume(ch != q)
            ctx.assume(ch != "\\")
        text = "def a = " + q + "x" + g + "y" + q + ";\ndef f(x) do\n  undefined_name\nend;\nf(1)"
        base = 1 + count_nl(list(g))
        out = run_ckl(text, name="prog.ckl")
        detail = lambda: {"text": str(text), "reported": str(out.exc.pos) if out.exc is not None else None,
                          "stack": [str(x) for x in out.exc.stacktrace] if out.exc is not None else None,
                          "expected_line": int(base + 2)}
        if out.kind != "rt":
            ctx.fail("C20:strnl:unexpected-outcome-%s" % out.kind, detail)
            return out
        e = out.exc
        ctx.check(e.pos is not None and e.pos.filename == "prog.ckl" and e.pos.line == base + 2,
                  "C20:strnl:wrong-line-behind-a-multi-line-string", detail)
        st = [str(x) for x in e.stacktrace]
        ctx.check(len(st) == 1 and ("prog.ckl:%d:" % int(base + 4)) in st[0], "C20:strnl:stacktrace-wrong-line-behind-a-multi-line-string", detail)
        return [out.kind, e.pos.line if e.pos is not None else None]
    if k == "twomods":
        # two module files with the same text under different names: an error raised in one names that one
        ctx.reach("fault")
        g = ctx.str("g", cell["n"])
        T.layout_ok(ctx, g)
        for ch in list(g):
            ctx.assume(ch != "\r")
        body = "def ok = 1;" + g + "def boom(x) x + undefined_name;"
        order = [("c20moda", "c20modb"), ("c20modb", "c20moda")][ctx.choice("order", 2)]
        shared = ctx.choice("shared_interpreter", 2)
        d = tempfile.mkdtemp(prefix="c20mod")
        res = []
        try:
            for nm in order:
                with open(os.path.join(d, nm + ".ckl"), "w", encoding="utf-8") as f:
                    f.write(str(body))
            from harness.common import fresh_interp
            it = fresh_interp()
            for nm in order:
                if not shared:
                    it = fresh_interp()
                out = run_ckl("require %s; %s->boom(1)" % (nm, nm), {"checkerlang_module_path": vlist([vstr(d)])},
                              it=it, name="prog.ckl")
                if out.kind != "rt":
                    ctx.fail("C20:twomods:unexpected-outcome-%s" % out.kind, lambda: str(out.exc or out.value))
                    return out
                e = out.exc
                exp = 1 + count_nl(list(g))
                detail = lambda: {"order": list(order), "shared_interpreter": int(shared), "module": nm, "reported": str(e.pos)}
                ctx.check(e.pos is not None and nm in str(e.pos.filename), "C20:twomods:error-names-another-module", detail)
                if e.pos is not None:
                    ctx.check(e.pos.line == exp, "C20:twomods:wrong-line", detail)
                res.append(str(e.pos.filename) if e.pos is not None else None)
        finally:
            for nm in order:
                try:
                    os.remove(os.path.join(d, nm + ".ckl"))
                except OSError:
                    pass
            try:
                os.rmdir(d)
            except OSError:
                pass
        return res
    raise AssertionError(k)
