"""Helpers shared by the harnesses.  Must run in both modes:
   symbolic  (python3-vt, transformed ckl, proxies)   and
   concrete  (/venv/bin/python, pristine ckl, plain values)."""
import io
import sys

from ckl.errors import CklRuntimeError, CklSyntaxError
from ckl.functions import get_none_environment
from ckl.interpreter import Interpreter
import ckl.values as V

_INTERPS = {}


def interp(secure=True, legacy=True):
    k = (secure, legacy)
    it = _INTERPS.get(k)
    if it is None:
        it = Interpreter(secure, legacy)
        it.setStandardOutput(V.StringOutput())
        _INTERPS[k] = it
    return it


def fresh_interp(secure=True, legacy=True):
    it = Interpreter(secure, legacy)
    it.setStandardOutput(V.StringOutput())
    return it


class Out:
    """outcome of running code under test"""
    __slots__ = ("kind", "value", "exc")

    def __init__(self, kind, value=None, exc=None):
        self.kind = kind      # ok | rt (CklRuntimeError) | syn (CklSyntaxError) | host
        self.value = value
        self.exc = exc

    def hostname(self):
        return type(self.exc).__name__ if self.exc is not None else None

    def __plain__(self):
        from symex.core import plain
        if self.kind == "ok":
            return ["ok", plain(self.value)]
        if self.kind == "rt":
            return ["rt", plain(self.exc.value) if isinstance(self.exc.value, V.Value)
                    else "nonvalue:" + str(self.exc.value)]
        if self.kind == "syn":
            return ["syn"]
        return ["host", type(self.exc).__name__]


def guard(fn, *a, **k):
    """run fn, classify the outcome.  BaseExceptions of the engine pass through."""
    try:
        return Out("ok", fn(*a, **k))
    except CklRuntimeError as e:
        return Out("rt", exc=e)
    except CklSyntaxError as e:
        return Out("syn", exc=e)
    except RecursionError as e:
        return Out("host", exc=e)
    except Exception as e:
        if type(e).__name__ == "ArgumentError" and "RecursionError" in str(e):
            # the recursion limit was hit inside a z3 ctypes call: same event as RecursionError
            return Out("host", exc=RecursionError("maximum recursion depth exceeded"))
        return Out("host", exc=e)


def run_ckl(text, bindings=None, it=None, name="t"):
    it = it or interp()
    env = get_none_environment()
    if bindings:
        for k, v in bindings.items():
            env.put(k, v)
    return guard(it.interpret, text, name, env)


def vint(x):
    return V.ValueInt(x)


def vstr(x):
    return V.ValueString(x)


def vdec(x):
    return V.ValueDecimal(x)


def vbool(x):
    return V.ValueBoolean.fromval(x)


def vlist(items):
    r = V.ValueList()
    for i in items:
        r.addItem(i)
    return r


def vset(items):
    r = V.ValueSet()
    for i in items:
        r.addItem(i)
    return r


def vmap(pairs):
    r = V.ValueMap()
    for k, v in pairs:
        r.addItem(k, v)
    return r


def raise_site(exc):
    """file:function of the innermost ckl frame that raised (finding keys)"""
    tb = exc.__traceback__
    site = "?"
    while tb is not None:
        fn = tb.tb_frame.f_code.co_filename
        if "/ckl/" in fn:
            site = fn.rsplit("/", 1)[1] + ":" + tb.tb_frame.f_code.co_name
        tb = tb.tb_next
    return site


# builtins that accept proxies (identical to the builtins on plain values)
from symex import shims as _sh

schr = _sh.sym_chr
sord = _sh.sym_ord
sstr = _sh.sym_str
srepr = _sh.sym_repr
sint = _sh.sym_int


def b_not(x):
    return (not x) if isinstance(x, bool) else ~x


def b_and(x, y):
    if isinstance(x, bool) and isinstance(y, bool):
        return x and y
    return x & y


def b_or(x, y):
    if isinstance(x, bool) and isinstance(y, bool):
        return x or y
    return x | y


def digits_int(ctx, name, maxdigits=6, signed=True):
    """an int given by its decimal digits (the digits are the symbolic objects, the value is
    linear in them): sign and digit count are forked, digits stay symbolic"""
    n = 1 + ctx.choice(name + ".nd", maxdigits)
    neg = bool(ctx.choice(name + ".neg", 2)) if signed else False
    ds = []
    v = 0
    for i in range(n):
        d = ctx.int("%s.d%d" % (name, i), 1 if (i == 0 and (n > 1 or neg)) else 0, 9)
        ds.append(d)
        v = v * 10 + d
    if neg:
        v = -v
    if ctx.symbolic and not isinstance(v, int):
        v.digits = (neg, ds)
    return v


# ---- stateful sequences on one container object (rendering / enumeration after mutation) ------
SEQ_SET_OPS = ["string(s)", "append(s, 1)", "append(s, 2)", "append(s, 5)", "remove(s, 1)", "remove(s, 3)",
               "for x in s do x end", "list(s)", "[...s]", "2 in s", "union(s, <<>>)", "length(s)"]
SEQ_MAP_OPS = ["string(m)", "put(m, 1, 'a')", "put(m, 2, 'b')", "put(m, 5, 'e')", "remove(m, 1)", "remove(m, 3)",
               "for k in keys m do k end", "[e for e in entries m]", "set(m)", "2 in m", "length(m)"]


def seq_model(kind, ops):
    """python model of the container after the operation sequence (errors abort the op only)"""
    if kind == "set":
        st = {1, 3, 4}
        for op in ops:
            if op.startswith("append(s, "):
                st.add(int(op[10:-1]))
            elif op.startswith("remove(s, "):
                st.discard(int(op[10:-1]))
        return sorted(st)
    m = {1: "x", 3: "y", 4: "z"}
    for op in ops:
        if op.startswith("put(m, "):
            k, v = op[7:-1].split(", ")
            m[int(k)] = v.strip("'")
        elif op.startswith("remove(m, "):
            m.pop(int(op[10:-1]), None)
    return sorted(m.items())
