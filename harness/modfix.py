"""User-module fixtures for C10 / C11: real .ckl files in a scratch directory (removed at exit)."""
import atexit
import os
import shutil
import tempfile

import ckl.values as V
from ckl.interpreter import Interpreter

MODULES = {
    # public and private definitions, mutable state behind accessors, a load counter in the log
    "good": """
append(load_log, 'good');
def _count = 0;
def __hidden = 41;
def pub = 7;
def inc() do _count = _count + 1; _count end;
def get() _count;
def peek_importer() importer_only_name;
""",
    "other": """
append(load_log, 'other');
require good;
def via_good() good->inc();
def own = 3;
""",
    "third": """
append(load_log, 'third');
require other;
require good;
def both() [other->via_good(), good->get()];
""",
    "broken": """
append(load_log, 'broken');
def before_failure = 1;
undefined_name_in_module;
def after_failure = 2;
""",
    "badsyntax": """
append(load_log, 'badsyntax');
def x = (1 + ;
""",
    "cyc_a": """
append(load_log, 'cyc_a');
require cyc_b;
def a = 1;
""",
    "cyc_b": """
append(load_log, 'cyc_b');
require cyc_a;
def b = 2;
""",
    "selfreq": """
append(load_log, 'selfreq');
require selfreq;
def s = 1;
""",
    "needs_broken": """
append(load_log, 'needs_broken');
require broken;
def nb = 1;
""",
    # public mutable data next to its accessors
    "state": """
append(load_log, 'state');
def counter = 0;
def bump() do counter = counter + 1; counter end;
def current() counter;
""",
    "uses_state": """
append(load_log, 'uses_state');
require state;
def seen() state->counter;
""",
    "shadow": """
append(load_log, 'shadow');
def pub = 'from shadow';
def _pub = 'private';
def Other = 5;
""",
}

_DIR = None


def moddir():
    global _DIR
    if _DIR is None:
        _DIR = tempfile.mkdtemp(prefix="cklmods")
        for name, src in MODULES.items():
            with open(os.path.join(_DIR, name + ".ckl"), "w", encoding="utf-8") as f:
                f.write(src)
        atexit.register(shutil.rmtree, _DIR, True)
    return _DIR


def new_session(legacy=False):
    """a fresh interpreter whose base environment knows the module path and a load log"""
    it = Interpreter(True, legacy)
    it.setStandardOutput(V.StringOutput())
    log = V.ValueList()
    path = V.ValueList()
    path.addItem(V.ValueString(moddir()))
    it.base_environment.put("load_log", log)
    it.base_environment.put("checkerlang_module_path", path)
    return it, log
