"""Template DSL for control-flow properties (C04, C05): a small tree language with two back ends:
a printer to Checkerlang source text and a reference interpreter written directly from the
property statements (Python exceptions for errors and early exits, Python loops, try/finally).

Which exit fires where, the error values, catch values, return values and loop element values
are run-time values bound in the environment (symbolic in the harness), so one text stands for
the family of programs that differ in those choices.

Nodes (tuples):
  ("log", tag)                          append(log, tag)
  ("lit", n)                            the int literal n (value of a block)
  ("exit", pos)                         fault point: fires when sel == pos or sel2 == pos
  ("block", body, catches, fin)         do body catch cv h ... finally fin end (value = body or handler value)
                                        catches: [(name_of_catch_value | "all", handler_body)]
  ("for", var, listname, body)          for var in <listname> do body end
  ("forset", var, setname, body)        same over a set (ascending order)
  ("while", counter, bound, body)       def counter = 0; while counter < bound do counter += 1; body end
  ("fun", name, body)                   def name() do body end
  ("call", name, tag)                   def r = name(); log [tag, r]
  ("return_call", name)                 return name()
  ("if", [(cond_name, value, body)], else_body)   if cond_name == value then ... elif ... else ...
  ("logvar", var)                       append(log, var)
Exit kinds (value of `kind`/`kind2`): 0 error ev, 1 undefined name, 2 division by zero,
3 return rv, 4 break, 5 continue, 6 a runtime error that originates from a host-level exception.
"""


class Err(Exception):
    def __init__(self, value):
        self.value = value


class Ret(Exception):
    def __init__(self, value):
        self.value = value


class Brk(Exception):
    pass


class FinCtl(Exception):
    """return / break / continue fired inside a finally part (effect unspecified by the property,
    except that it must not swallow an error that is in flight)"""


class Cnt(Exception):
    pass


ERROR = "ERROR"     # value of runtime 'ERROR's


# ---- printer -----------------------------------------------------------------------------------
def render(nodes, ind=""):
    return ";\n".join(render1(n, ind) for n in nodes)


def render1(n, ind):
    t = n[0]
    if t == "log":
        return "%sappend(log, %d)" % (ind, n[1])
    if t == "logvar":
        return "%sappend(log, %s)" % (ind, n[1])
    if t == "lit":
        return "%s%d" % (ind, n[1])
    if t == "exit":
        p = n[1]
        body = ("if k == 0 then error e elif k == 1 then undefined_name_xyz elif k == 2 then 1 / 0 "
                "elif k == 3 then return rv elif k == 4 then break elif k == 5 then continue")
        # kind 6 fails with a host-level exception DIRECTLY in the enclosing block (no helper block in between)
        host = "split('a,b', '(')"
        return ("%sif sel == %d then do def k = kind; def e = ev; %s end;\n"
                "%sif sel2 == %d then do def k = kind2; def e = ev2; %s end;\n"
                "%sif sel == %d and kind == 6 then %s;\n%sif sel2 == %d and kind2 == 6 then %s"
                % (ind, p, body, ind, p, body.replace("return rv", "return rv2"), ind, p, host, ind, p, host))
    if t == "block":
        _, body, catches, fin = n
        s = "%sdo\n%s" % (ind, render(body, ind + "  "))
        for cv, h in catches:
            s += "\n%scatch %s do\n%s\n%send" % (ind, cv, render(h, ind + "  "), ind)
        if fin:
            s += "\n%sfinally do\n%s\n%send" % (ind, render(fin, ind + "  "), ind)
        s += "\n%send" % ind
        return s
    if t == "for":
        _, var, lst, body = n
        return "%sfor %s in %s do\n%s\n%send" % (ind, var, lst, render(body, ind + "  "), ind)
    if t == "forset":
        _, var, lst, body = n
        return "%sfor %s in %s do\n%s\n%send" % (ind, var, lst, render(body, ind + "  "), ind)
    if t == "formap":
        _, var, what, mname, body = n
        return "%sfor %s in %s %s do\n%s\n%send" % (ind, var, what, mname, render(body, ind + "  "), ind)
    if t == "while":
        _, c, bound, body = n
        return "%sdef %s = 0;\n%swhile %s < %s do\n%s  %s += 1;\n%s\n%send" % (
            ind, c, ind, c, bound, ind, c, render(body, ind + "  "), ind)
    if t == "fun":
        _, name, body = n
        return "%sdef %s() do\n%s\n%send" % (ind, name, render(body, ind + "  "), ind)
    if t == "call":
        _, name, tag = n
        return "%sdef r%d = %s();\n%sappend(log, [%d, r%d])" % (ind, tag, name, ind, tag, tag)
    if t == "return_call":
        return "%sreturn %s()" % (ind, n[1])
    if t == "fun1":
        _, name, body = n
        return "%sdef %s(p, q = 0) do\n%s\n%send" % (ind, name, render(body, ind + "  "), ind)
    if t == "call1":
        _, name, arg, tag = n
        return "%sdef r%d = %s(%s, q = %s);\n%sappend(log, [%d, r%d])" % (ind, tag, name, arg, arg, ind, tag, tag)
    if t == "if":
        _, branches, els = n
        s = ""
        for i, (cn, val, body) in enumerate(branches):
            s += "%s%s %s == %d then do\n%s\n%send " % (ind if i == 0 else "", "if" if i == 0 else "elif",
                                                      cn, val, render(body, ind + "  "), ind)
        if els is not None:
            s += "else do\n%s\n%send" % (render(els, ind + "  "), ind)
        return s
    raise AssertionError(n)


# ---- reference interpreter ---------------------------------------------------------------------
class Ref:
    """vals: dict of run-time values (possibly proxies): sel, sel2, kind, kind2, ev, ev2, rv,
    catch values, list contents.  eq(a, b) decides equality of two language values."""

    def __init__(self, vals, eq=None, mk=None, error=ERROR):
        self.mk = mk or (lambda x: x)      # python int / list -> language value
        self.error = error
        self.v = vals
        self.log = []
        self.funs = {}
        self.eq = eq or (lambda a, b: a == b)
        self.steps = 0
        self.in_finally = 0
        self.log_unspecified = False     # a control exit fired inside a finally part
        self.all_unspecified = False     # ... while no error was in flight

    def fire(self, k, e, rv=None):
        if self.in_finally and k in (3, 4, 5):
            raise FinCtl()
        if k == 0:
            raise Err(e)
        if k == 1:
            raise Err(self.error)
        if k == 2:
            raise Err(self.error)
        if k == 3:
            raise Ret(self.v["rv"] if rv is None else rv)
        if k == 4:
            raise Brk()
        if k == 6:
            raise Err(self.error)      # a runtime 'ERROR' that starts life as a host exception (bad regex)
        raise Cnt()

    def run(self, nodes):
        val = None
        for n in nodes:
            val = self.run1(n)
        return val

    def run1(self, n):
        t = n[0]
        v = self.v
        if t == "log":
            self.log.append(self.mk(n[1]))
            return None
        if t == "logvar":
            self.log.append(self.mk(v[n[1]]))
            return None
        if t == "lit":
            return self.mk(n[1])
        if t == "exit":
            # same order as the rendered statements: kinds 0..5 of both fault points, then kind 6 of both
            if v["sel"] == n[1] and v["kind"] != 6:
                self.fire(v["kind"], v["ev"])
            if v["sel2"] == n[1] and v["kind2"] != 6:
                self.fire(v["kind2"], v["ev2"], v.get("rv2"))
            if v["sel"] == n[1] and v["kind"] == 6:
                self.fire(6, None)
            if v["sel2"] == n[1] and v["kind2"] == 6:
                self.fire(6, None)
            return None
        if t == "block":
            _, body, catches, fin = n
            pending = None
            val = None
            try:
                try:
                    val = self.run(body)
                except Err as e:
                    for cv, h in catches:
                        if cv == "all" or self.eq(e.value, v[cv]):
                            val = self.run(h)
                            break
                    else:
                        raise
            except (Err, Ret, Brk, Cnt, FinCtl) as e:
                pending = e
            # the finally part runs exactly once, however the block is left
            self.in_finally += 1
            try:
                self.run(fin)            # an error raised here replaces whatever was pending
            except FinCtl:
                self.log_unspecified = True
                if not isinstance(pending, Err):
                    self.all_unspecified = True
            finally:
                self.in_finally -= 1
            if pending is not None:
                raise pending
            return val
        if t in ("for", "forset"):
            _, var, lst, body = n
            items = v[lst]
            if t == "forset":
                items = sorted_distinct(items)
            for x in items:
                v[var] = x
                try:
                    self.run(body)
                except Brk:
                    break
                except Cnt:
                    continue
            return None
        if t == "formap":
            _, var, what, mname, body = n
            pairs = v[mname]                      # list of (key, value) language values, keys distinct
            order = []
            for kv in pairs:
                i = 0
                while i < len(order) and order[i][0] < kv[0]:
                    i += 1
                order.insert(i, kv)
            for kk, vv in order:
                v[var] = kk if what == "keys" else (vv if what == "values" else self.mk([kk, vv]))
                try:
                    self.run(body)
                except Brk:
                    break
                except Cnt:
                    continue
            return None
        if t == "while":
            _, c, bound, body = n
            i = 0
            while i < v[bound]:
                i += 1
                v[c] = i
                try:
                    self.run(body)
                except Brk:
                    break
                except Cnt:
                    continue
            return None
        if t in ("fun", "fun1"):
            self.funs[n[1]] = n[2]
            return None
        if t == "call1":
            n = ("call", n[1], n[3])
            t = "call"
        if t == "return_call":
            # return <call>: the callee's value leaves the enclosing function (through its blocks)
            saved, self.in_finally = self.in_finally, 0
            try:
                try:
                    r = self.run(self.funs[n[1]])
                except Ret as e:
                    r = e.value
                except (Brk, Cnt):
                    raise Err(self.error)
            finally:
                self.in_finally = saved
            if self.in_finally:
                raise FinCtl()
            raise Ret(r)
        if t == "call":
            _, name, tag = n
            # a return / stray break / continue inside the callee is an ordinary exit of the callee,
            # also when the call sits in a finally part
            saved, self.in_finally = self.in_finally, 0
            try:
                r = self.run(self.funs[name])
            except Ret as e:
                r = e.value
            except (Brk, Cnt):
                raise Err(self.error)       # stray break / continue leaving a function
            except FinCtl:
                self.all_unspecified = True
                r = None
            finally:
                self.in_finally = saved
            self.log.append(self.mk([self.mk(tag), r]))
            return None
        if t == "if":
            _, branches, els = n
            for cn, val, body in branches:
                if v[cn] == val:
                    return self.run(body)
            if els is not None:
                return self.run(els)
            return None
        raise AssertionError(n)

    def toplevel(self, nodes):
        """('ok', value) | ('err', value)"""
        try:
            r = self.run(nodes)
            return ("ok", r)
        except Ret as e:
            return ("ok", e.value)
        except (Brk, Cnt):
            return ("err", self.error)
        except Err as e:
            return ("err", e.value)
        except FinCtl:
            self.all_unspecified = True
            return ("ok", None)


def sorted_distinct(items):
    out = []
    for x in items:
        if not any(x == y for y in out):
            out.append(x)
    # insertion sort with the harness values' own < (forks on symbolic values)
    res = []
    for x in out:
        i = 0
        while i < len(res) and res[i] < x:
            i += 1
        res.insert(i, x)
    return res


def positions(nodes):
    out = []
    for n in nodes:
        if n[0] == "exit":
            out.append(n[1])
        for part in n[1:]:
            if isinstance(part, list):
                if part and isinstance(part[0], tuple) and part[0] and isinstance(part[0][0], str) \
                        and part[0][0] in ("log", "lit", "exit", "block", "for", "forset", "while", "fun", "call",
                                           "if", "logvar"):
                    out += positions(part)
                else:
                    for sub in part:
                        if isinstance(sub, tuple):
                            for s2 in sub:
                                if isinstance(s2, list):
                                    out += positions(s2)
    return out
