"""Token alphabet and seed programs shared by C01, C02, C09, C14, C20.

The alphabet is rebuilt from the working tree on every run: every string constant of parser.py
that the parser can compare a token against, KEYWORDS, OPERATORS, interpunction spellings and
representatives of each literal class, each pushed through the real Lexer to learn (type, value).
"""
import ast
import os

from ckl.lexer import Lexer, Token, SourcePos
import ckl.lexer as L
import ckl.parser as P

_ALPHA = None
_LISTS = {}

REPRESENTATIVES = ["a", "b", "xs...", "checkerlang_x", "checkerlang_secure_mode", "1", "2.5", "'s'",
                   "TRUE", "FALSE", "//a//", "//[//", "...", "=>", "<<", ">>", "<<<", ">>>", "<*",
                   "*>", "(", ")", "[", "]", ",", ";", "0", "NULL", "_x",
                   "'('", "'['", "'->'", "'!>'", "'end'", "'='", "'do'", "';'"]
TYPES = {"identifier", "keyword", "operator", "interpunction", "string", "int", "decimal",
         "boolean", "pattern"}


def alphabet():
    """list of (type, value, spelling)"""
    global _ALPHA
    if _ALPHA is not None:
        return _ALPHA
    src = open(P.__file__).read()
    consts = set()
    for n in ast.walk(ast.parse(src)):
        if isinstance(n, ast.Constant) and isinstance(n.value, str) and 0 < len(n.value) < 20 \
                and " " not in n.value:
            consts.add(n.value)
    spell = set(L.KEYWORDS) | set(L.OPERATORS) | (consts - TYPES) | set(REPRESENTATIVES)
    out, seen = [], set()
    for s in sorted(spell):
        try:
            toks = Lexer(s, "-").scan().tokens
        except Exception:
            continue
        if len(toks) != 1:
            continue
        key = (toks[0].type, toks[0].value)
        if key in seen:
            continue
        seen.add(key)
        out.append((toks[0].type, toks[0].value, s))
    _ALPHA = out
    return out


class SymTok:
    """Token-shaped object; value and type are two views of one symbolic kind."""

    def __init__(self, value, type_, pos):
        self.value = value
        self.type = type_
        self.pos = pos

    def __repr__(self):
        return Token.__repr__(self)


def sym_token(ctx, name, pos, restrict=None):
    """a token whose kind ranges over the whole alphabet (or the spellings in restrict)"""
    al = alphabet()
    if restrict is not None:
        al = [a for a in al if a[2] in restrict]
    if ctx.symbolic:
        from symex.proxies import SymEnum
        ck = tuple(a[2] for a in al)
        lists = _LISTS.get(ck)
        if lists is None:
            lists = _LISTS[ck] = ([a[2] for a in al], [a[1] for a in al], [a[0] for a in al])
        k = ctx.enum(name, lists[0])
        return SymTok(SymEnum(k.k, lists[1]), SymEnum(k.k, lists[2]), pos), k
    sp = ctx.enum(name, [a[2] for a in al])
    a = [x for x in al if x[2] == sp][0]
    return Token(a[1], a[0], pos), sp


def lex(text, name="t"):
    return Lexer(text, name).scan()


# ---- seed programs: every production of parser.py ------------------------------------------
SEEDS = [
    "def x = 1; x",
    "def f(a, b = 2, c...) a + b",
    "for x in [1, 2] do f(x) end",
    "if a < b then 1 elif a == b then 2 else 3",
    "while i < 3 do i += 1 end",
    "do def a = 1; a catch 1 2 catch all 3 finally 4 end",
    "fn(x) x * 2",
    "[x * 2 for x in xs if x > 1]",
    "[a + b for a in xs for b in ys]",
    "[a + b for a in xs also for b in ys]",
    "<<x for x in xs>>",
    "<<<k => v for k in ks>>>",
    "<<<1 => 'a', b => 2>>>",
    "<<1, 2, 3>>",
    "<*a = 1, f(x) = x*>",
    "def class A do def m(self) 1 end",
    "require Math; Math->PI",
    "require Math as M",
    "require Math unqualified",
    "require Math import [sin as s, cos]",
    "x is not empty and y is in [1] or not z",
    "a is list", "a is not zero", "a in b", "a not in b",
    "s[1 to 2]", "s[1 to *]", "s[0] = 1", "m['k', 0]", "o->m(1)", "o->x = 2", "x !> f(1)",
    "f(...xs, a = 1)",
    "[a, b] = [1, 2]", "def [a, b] = l",
    "for [k, v] in entries m do k end", "for k in keys m do break end",
    "return 1", "error 'x'", "continue",
    "1 < 2 <= 3", "-a * (b - 1) / 2 % 3",
    "//ab//", "'s' + \"t\"", "1.5 + 0x1f + 0b11",
    "a = b = 1", "a += 1; a -= 1; a *= 2; a /= 2; a %= 2",
    "x is numerical", "x is date with hour", "s is time", "x starts with 'a'", "x ends not with 'b'",
    "x contains 'a'", "x matches //a//", "x is in [1]", "x is one of 1, 2",
]


def seed_tokens(text):
    return lex(text).tokens


# ---- seed texts split into token spellings with their separators -----------------------------
import re as _re

_PIECE = _re.compile(r"""
    '[^']*' | "[^"]*" | //.*?// |
    \.\.\. | <<< | >>> | <\* | \*> | << | >> | => | == | <> | != | <= | >= | \+= | -= | \*= | /= | %= | !> | -> |
    [A-Za-z_][A-Za-z0-9_]*(?:\.\.\.)? | [0-9][0-9A-Za-z_.]* |
    [-+*/%()\[\],;<>=!]
""", _re.X)


def seed_pieces(text):
    """[(spelling, separator_after)] or None when the split disagrees with the real lexer"""
    out = []
    pos = 0
    while pos < len(text):
        m = _PIECE.match(text, pos)
        if not m:
            return None
        sp = m.group(0)
        pos = m.end()
        j = pos
        while j < len(text) and text[j] in " \t\r\n":
            j += 1
        out.append((sp, text[pos:j]))
        pos = j
    try:
        toks = Lexer(text, "t").scan().tokens
    except Exception:
        return None
    if len(toks) != len(out):
        return None
    for t, (sp, _) in zip(toks, out):
        one = Lexer(sp, "t").scan().tokens
        if len(one) != 1 or one[0].value != t.value or one[0].type != t.type:
            return None
    return out


def layout_ok(ctx, gap):
    """assume: gap (list of chars) is layout: whitespace, or a # comment ending in LF"""
    ws = " \t\r\n"

    def is_ws(c):
        r = (c == ws[0])
        for w in ws[1:]:
            r = r | (c == w)
        return r
    n = len(gap)
    if n == 0:
        return
    if n == 1:
        ctx.assume(is_ws(gap[0]))
        return
    if n == 2:
        ctx.assume((is_ws(gap[0]) & is_ws(gap[1])) | ((gap[0] == "#") & (gap[1] == "\n")))
        return
    if n == 3:
        a, b, c = gap
        allws = is_ws(a) & is_ws(b) & is_ws(c)
        ctx.assume(allws | ((a == "#") & (b == "\n") & is_ws(c)) | (is_ws(a) & (b == "#") & (c == "\n"))
                   | ((a == "#") & (b != "\n") & (c == "\n")))
        return
    raise ValueError("gap too long")
