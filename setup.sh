#!/bin/sh
# offline setup: nothing to build or install; verify the tools the checks need
set -e
python3-vt -c "import z3; print('z3', z3.get_version_string())"
/venv/bin/python -c "import sys; print('oracle python', sys.version.split()[0])"
test -d /repo/src/ckl
mkdir -p /verif/evidence /verif/replays
(command -v cvc5 >/dev/null && cvc5 --version | head -1) || echo "cvc5 binary not found: the FP obligations of C17 (thorough) fall back to z3"
