"""Re-execution symbolic executor (decision tree + z3) and the two harness contexts.

SymCtx      symbolic mode: inputs are proxies, every data dependent branch is a solver query
ConcreteCtx replay mode: inputs are plain values (a model), used in the pristine oracle process

z3 is imported lazily so that this module also loads under /venv/bin/python (no z3 there).
"""
import signal
import time

_z3 = None


def z3():
    global _z3
    if _z3 is None:
        import z3 as m
        _z3 = m
    return _z3


class PathAbort(BaseException):
    """current path cannot continue (infeasible assumption / no open branch)"""


class Diverged(BaseException):
    """decision budget or wall clock budget of one path exhausted"""


class Unsupported(BaseException):
    """a proxy reached an operation it cannot carry"""


class Inconclusive(BaseException):
    """solver answered unknown"""


class EngineError(BaseException):
    pass


CUR = None  # the engine currently executing a path (one per process)


class Node:
    __slots__ = ("cond", "kids", "parent", "done", "cterm", "cval")

    def __init__(self, parent=None):
        self.cterm = None
        self.cval = None
        self.cond = None
        self.kids = None
        self.parent = parent
        self.done = False


INFEASIBLE = "X"


class Stats:
    FIELDS = ("paths", "decisions", "queries", "sat", "unsat", "unknown", "obligations",
              "discharged", "solver_s", "forks_concretise", "aborted", "diverged", "unsupported",
              "folded")

    def __init__(self):
        for f in self.FIELDS:
            setattr(self, f, 0)

    def as_dict(self):
        return {f: getattr(self, f) for f in self.FIELDS}

    def add(self, d):
        for f in self.FIELDS:
            setattr(self, f, getattr(self, f) + d.get(f, 0))


class Engine:
    def __init__(self, max_decisions=20000, path_seconds=20, solver_timeout_ms=20000,
                 max_folded=None):
        self.max_folded = max_folded if max_folded is not None else 50 * max_decisions
        self.nfold = 0
        Z = z3()
        self.Z = Z
        self.solver = Z.Solver()
        self.solver.set("timeout", solver_timeout_ms)
        self.stats = Stats()
        self.max_decisions = max_decisions
        self.path_seconds = path_seconds
        self.eval_model = None
        self.root = None
        self.node = None
        self.ndec = 0
        self.vars = []  # (name, kind, term/extra) in creation order of the current path
        self.bounds = {}  # z3 var id -> (lo, hi)
        self.excl = {}    # z3 var id -> set of excluded values

    # ---- solver -------------------------------------------------------------------------
    def _check(self, *extra):
        t = time.time()
        r = self.solver.check(*extra)
        self.stats.solver_s += time.time() - t
        self.stats.queries += 1
        Z = self.Z
        if r == Z.sat:
            self.stats.sat += 1
            return "sat"
        if r == Z.unsat:
            self.stats.unsat += 1
            return "unsat"
        self.stats.unknown += 1
        return "unknown"

    def model(self):
        r = self._check()
        if r != "sat":
            raise Inconclusive("model: " + r)
        return self.solver.model()

    # ---- exploration --------------------------------------------------------------------
    def explore(self, fn, max_paths=200000):
        """run fn() repeatedly until the decision tree is closed; yields per-path records."""
        global CUR
        self.root = Node()
        while not self.root.done:
            if self.stats.paths >= max_paths:
                raise EngineError("path budget exhausted (%d)" % max_paths)
            self.solver.push()
            self.node = self.root
            self.ndec = 0
            self.nfold = 0
            self.naux = 0
            self.vars = []
            self.bounds = {}
            self.excl = {}
            self.eval_model = None
            CUR = self
            rec = {"status": None, "value": None, "exc": None}
            self._arm()
            try:
                try:
                    rec["value"] = fn()
                    rec["status"] = "ok"
                finally:
                    self._disarm()
            except PathAbort:
                rec["status"] = "abort"
                self.stats.aborted += 1
            except Diverged as e:
                rec["status"] = "diverged"
                rec["exc"] = e
                self.stats.diverged += 1
            except Unsupported as e:
                rec["status"] = "unsupported"
                rec["exc"] = e
                self.stats.unsupported += 1
            except Inconclusive as e:
                rec["status"] = "inconclusive"
                rec["exc"] = e
            except RecursionError as e:
                rec["status"] = "harness_exc"
                rec["exc"] = e
            except Exception as e:  # harness bug or proxy bug
                rec["status"] = "harness_exc"
                rec["exc"] = e
            self.stats.paths += 1
            yield rec
            self.eval_model = None
            self._close(self.node)
            self.solver.pop()
        CUR = None

    def _close(self, node):
        node.done = True
        n = node.parent
        while n is not None:
            for k in n.kids.values():
                if k is not INFEASIBLE and not k.done:
                    return
            n.done = True
            n = n.parent

    def _arm(self):
        # the path budget is CPU time of this process (a loaded machine must not turn a slow path into
        # a divergence); a generous wall clock limit stays as a backstop for paths that block
        def handler(signum, frame):
            signal.setitimer(signal.ITIMER_PROF, 0.2)  # re-arm until it propagates
            raise Diverged("cpu time budget of path exhausted")

        def wall(signum, frame):
            signal.setitimer(signal.ITIMER_REAL, 0.2)
            raise Diverged("wall clock backstop of path exhausted")
        signal.signal(signal.SIGPROF, handler)
        signal.signal(signal.SIGALRM, wall)
        signal.setitimer(signal.ITIMER_PROF, self.path_seconds)
        signal.setitimer(signal.ITIMER_REAL, 10 * self.path_seconds + 60)

    def _disarm(self):
        signal.setitimer(signal.ITIMER_PROF, 0)
        signal.setitimer(signal.ITIMER_REAL, 0)

    # ---- interval folding: single variable comparisons decided by known bounds -------------
    def _atom(self, t):
        """t as (var_id, op, const) with op in <=,>=,== ; or None.  neg handled by caller."""
        Z = self.Z
        k = t.decl().kind()
        if k not in (Z.Z3_OP_LE, Z.Z3_OP_GE, Z.Z3_OP_EQ, Z.Z3_OP_LT, Z.Z3_OP_GT):
            return None
        a, b = t.arg(0), t.arg(1)
        if Z.is_int_value(b) and Z.is_const(a) and a.decl().kind() == Z.Z3_OP_UNINTERPRETED:
            v, c, flip = a, b.as_long(), False
        elif Z.is_int_value(a) and Z.is_const(b) and b.decl().kind() == Z.Z3_OP_UNINTERPRETED:
            v, c, flip = b, a.as_long(), True
        else:
            return None
        if not Z.is_int(v):
            return None
        op = {Z.Z3_OP_LE: "<=", Z.Z3_OP_GE: ">=", Z.Z3_OP_EQ: "==", Z.Z3_OP_LT: "<",
              Z.Z3_OP_GT: ">"}[k]
        if flip:
            op = {"<=": ">=", ">=": "<=", "==": "==", "<": ">", ">": "<"}[op]
        if op == "<":
            op, c = "<=", c - 1
        elif op == ">":
            op, c = ">=", c + 1
        return v.get_id(), op, c

    def decide_atom(self, sb):
        """decide a SymBool that carries a pre-parsed atom (no z3 term parsing)"""
        if self.eval_model is not None:
            return self.Z.is_true(self.eval_model.eval(sb.t, model_completion=True))
        v, op, c, neg = sb.atom
        r, info = self._fold_atom(v.get_id(), op, c, neg)
        if r is not None:
            self.stats.folded += 1
            self.nfold += 1
            if self.nfold > self.max_folded:
                raise Diverged("folded-decision budget of path exhausted")
            return r
        return self.decide(sb.t, info)

    def _fold(self, t):
        Z = self.Z
        neg = False
        while Z.is_not(t):
            t = t.arg(0)
            neg = not neg
        at = self._atom(t)
        if at is None:
            return None, None
        vid, op, c = at
        return self._fold_atom(vid, op, c, neg)

    def _fold_atom(self, vid, op, c, neg):
        lo, hi = self.bounds.get(vid, (None, None))
        r = None
        if op == "<=":
            if hi is not None and hi <= c:
                r = True
            elif lo is not None and lo > c:
                r = False
        elif op == ">=":
            if lo is not None and lo >= c:
                r = True
            elif hi is not None and hi < c:
                r = False
        else:
            if (lo is not None and c < lo) or (hi is not None and c > hi):
                r = False
            elif lo is not None and lo == hi == c:
                r = True
            elif c in self.excl.get(vid, ()):
                r = False
        if r is not None and neg:
            r = not r
        return r, (vid, op, c, neg)

    def _learn(self, info, taken):
        if info is None:
            return
        vid, op, c, neg = info
        truth = taken != neg           # truth value of the atom itself
        lo, hi = self.bounds.get(vid, (None, None))
        if op == "<=":
            if truth:
                hi = c if hi is None else min(hi, c)
            else:
                lo = c + 1 if lo is None else max(lo, c + 1)
        elif op == ">=":
            if truth:
                lo = c if lo is None else max(lo, c)
            else:
                hi = c - 1 if hi is None else min(hi, c - 1)
        elif truth:
            lo = hi = c
        else:
            ex = self.excl.setdefault(vid, set())
            ex.add(c)
            while lo is not None and lo in ex:      # shave excluded end points
                lo += 1
            while hi is not None and hi in ex:
                hi -= 1
        self.bounds[vid] = (lo, hi)

    def decide(self, t, info=None):
        """t: z3 Bool term. Returns a python bool, forking the exploration."""
        Z = self.Z
        if self.eval_model is not None:
            return Z.is_true(self.eval_model.eval(t, model_completion=True))
        if Z.is_true(t):
            return True
        if Z.is_false(t):
            return False
        if info is None:
            folded, info = self._fold(t)
            if folded is not None:
                self.stats.folded += 1
                self.nfold += 1
                if self.nfold > self.max_folded:
                    raise Diverged("folded-decision budget of path exhausted")
                return folded
        self.ndec += 1
        self.stats.decisions += 1
        if self.ndec > self.max_decisions:
            raise Diverged("decision budget of path exhausted")
        n = self.node
        if n.kids is None:
            n.cond = t
            r1 = self._check(t)
            if r1 == "unknown":
                raise Inconclusive("branch feasibility unknown")
            if r1 == "sat":
                r2 = self._check(Z.Not(t))
                if r2 == "unknown":
                    raise Inconclusive("branch feasibility unknown")
            else:
                r2 = "sat"
            n.kids = {True: Node(n) if r1 == "sat" else INFEASIBLE,
                      False: Node(n) if r2 == "sat" else INFEASIBLE}
        elif not n.cond.eq(t):
            raise EngineError("non-deterministic re-execution: %s vs %s" % (n.cond, t))
        for b in (True, False):
            k = n.kids[b]
            if k is not INFEASIBLE and not k.done:
                self.solver.add(t if b else Z.Not(t))
                self.node = k
                self._learn(info, b)
                return b
        raise PathAbort()

    def assume(self, t):
        Z = self.Z
        if self.eval_model is not None:
            return
        if Z.is_true(t):
            return
        self.solver.add(t)
        if self._check() != "sat":
            raise PathAbort()
        self._learn(self._fold(t)[1], True)

    def concretise(self, term, limit=256):
        """fork over every feasible value of an Int term under the path condition.

        The feasible values are enumerated first (blocking clauses, no forking); more than
        `limit` of them raise Unsupported at once instead of after `limit` explored paths."""
        Z = self.Z
        if self.eval_model is not None:
            return self.eval_model.eval(term, model_completion=True).as_long()
        if Z.is_int_value(term):
            return term.as_long()
        node = self.node
        if node.kids is not None and node.cterm is not None and node.cterm.eq(term):
            vals = node.cval                  # re-execution: same candidates as the first time
        else:
            vals = []
            self.solver.push()
            try:
                while len(vals) <= limit:
                    r = self._check()
                    if r == "unknown":
                        raise Inconclusive("concretisation: solver unknown")
                    if r != "sat":
                        break
                    v = self.solver.model().eval(term, model_completion=True).as_long()
                    vals.append(v)
                    self.solver.add(term != v)
            finally:
                self.solver.pop()
            if len(vals) > limit:
                raise Unsupported("more than %d feasible values in concretisation" % limit)
            if not vals:
                raise PathAbort()
            vals.sort()
            if node.kids is None:
                node.cterm, node.cval = term, vals
        self.stats.forks_concretise += len(vals)
        for v in vals[:-1]:
            if self.decide(term == v):
                return v
        self.assume(term == vals[-1])
        return vals[-1]

    def prove(self, t):
        """is (pc -> t) valid?  returns 'unsat' (proved), ('sat', model) or 'unknown'"""
        Z = self.Z
        self.stats.obligations += 1
        if Z.is_true(t):
            self.stats.discharged += 1
            return "unsat", None
        r = self._check(Z.Not(t))
        if r == "unsat":
            self.stats.discharged += 1
            return "unsat", None
        if r == "sat":
            return "sat", self.solver.model()
        return "unknown", None


# =========================================================================================

class CtxBase:
    symbolic = False

    def __init__(self):
        self.failed = []      # list of (label, detail)
        self.notes = {}
        self.classes = set()

    def reach(self, cls):
        """declare that this path belongs to outcome class cls (vacuity accounting)"""
        self.classes.add(cls)

    def note(self, k, v):
        self.notes[k] = v


class ConcreteCtx(CtxBase):
    """replays a harness on plain values (inputs: name -> value)."""

    def __init__(self, inputs):
        super().__init__()
        self.inputs = inputs

    def _get(self, name, default):
        return self.inputs.get(name, default)

    def int(self, name, lo=None, hi=None):
        v = self._get(name, lo if lo is not None else 0)
        return int(v)

    def bool(self, name):
        return bool(self._get(name, False))

    def word(self, name, bits=32):
        return int(self._get(name, 0))

    def char(self, name, lo=0, hi=0x10FFFF):
        return chr(self._get(name, 32))

    def str(self, name, n, lo=0, hi=0x10FFFF):
        return "".join(chr(self._get("%s[%d]" % (name, i), 32)) for i in range(n))

    def enum(self, name, options):
        return options[self._get(name, 0)]

    def choice(self, name, n):
        return int(self._get(name, 0))

    def perm(self, name, n):
        return list(self._get(name, list(range(n))))

    def assume(self, c):
        if not c:
            raise PathAbort()

    def check(self, c, label, detail=None):
        if not c:
            self.fail(label, detail)
            return False
        return True

    def fail(self, label, detail=None):
        if callable(detail):
            try:
                detail = detail()
            except Exception as ex:
                detail = "detail failed: %r" % (ex,)
        self.failed.append((label, plain(detail)))

    def plain(self, x):
        return plain(x)


class SymCtx(CtxBase):
    symbolic = True

    def __init__(self, engine):
        super().__init__()
        self.e = engine
        self.candidates = []  # (label, detail, inputs)
        self.unknowns = []

    # -- inputs
    def _reg(self, name, kind, term, extra=None):
        self.e.vars.append((name, kind, term, extra))

    def int(self, name, lo=None, hi=None):
        from symex.proxies import SymInt
        Z = self.e.Z
        v = Z.Int(name)
        if lo is not None:
            self.e.solver.add(v >= lo)
        if hi is not None:
            self.e.solver.add(v <= hi)
        self.e.bounds[v.get_id()] = (lo, hi)
        self._reg(name, "int", v)
        return SymInt(v)

    def bool(self, name):
        from symex.proxies import SymBool
        v = self.e.Z.Bool(name)
        self._reg(name, "bool", v)
        return SymBool(v)

    def word(self, name, bits=32):
        """unsigned machine word of the given width, as a 128-bit bit-vector backed integer"""
        from symex.proxies import SymWord
        Z = self.e.Z
        v = Z.BitVec(name, bits)
        self._reg(name, "bv", v)
        return SymWord(Z.ZeroExt(SymWord.W - bits, v))

    def char(self, name, lo=0, hi=0x10FFFF):
        from symex.proxies import SymChar
        Z = self.e.Z
        v = Z.Int(name)
        self.e.solver.add(v >= lo, v <= hi, Z.Or(v < 0xD800, v > 0xDFFF))
        self._reg(name, "int", v)
        return SymChar(v)

    def str(self, name, n, lo=0, hi=0x10FFFF):
        from symex.proxies import SymStr
        return SymStr([self.char("%s[%d]" % (name, i), lo, hi) for i in range(n)])

    def enum(self, name, options):
        from symex.proxies import SymEnum
        Z = self.e.Z
        v = Z.Int(name)
        self.e.solver.add(v >= 0, v < len(options))
        self._reg(name, "int", v)
        return SymEnum(v, list(options))

    def choice(self, name, n):
        """a concrete int in range(n); the exploration forks over all of them"""
        Z = self.e.Z
        v = Z.Int(name)
        self.e.solver.add(v >= 0, v < n)
        self._reg(name, "int", v)
        for i in range(n - 1):
            if self.e.decide(v == i):
                return i
        self.e.assume(v == n - 1)
        return n - 1

    def perm(self, name, n):
        """a concrete permutation of range(n), forked over all n! orders"""
        rest = list(range(n))
        out = []
        for k in range(n):
            i = self.choice("%s.%d" % (name, k), len(rest)) if len(rest) > 1 else 0
            out.append(rest.pop(i))
        self.e.vars.append((name, "perm", None, out))
        return out

    # -- assumptions / obligations
    def assume(self, c):
        from symex.proxies import SymBool
        if isinstance(c, SymBool):
            self.e.assume(c.t)
        elif not c:
            raise PathAbort()

    def inputs(self, model=None):
        Z = self.e.Z
        if model is None:
            model = self.e.model()
        out = {}
        for name, kind, term, extra in self.e.vars:
            if kind == "int":
                out[name] = model.eval(term, model_completion=True).as_long()
            elif kind == "bool":
                out[name] = Z.is_true(model.eval(term, model_completion=True))
            elif kind == "bv":
                out[name] = model.eval(term, model_completion=True).as_long()
            elif kind == "perm":
                out[name] = list(extra)
        return out

    def check(self, c, label, detail=None):
        from symex.proxies import SymBool
        if isinstance(c, SymBool):
            r, m = self.e.prove(c.t)
            if r == "unsat":
                return True
            if r == "unknown":
                self.unknowns.append(label)
                return True
            self.candidates.append((label, _detail(detail, self.e, m), self.inputs(m)))
            # continue on the part of the class where the obligation holds
            self.e.assume(c.t)
            return False
        self.e.stats.obligations += 1
        if c:
            self.e.stats.discharged += 1
            return True
        self.candidates.append((label, _detail(detail, self.e, None), self.inputs()))
        return False

    def fail(self, label, detail=None):
        self.e.stats.obligations += 1
        self.candidates.append((label, _detail(detail, self.e, None), self.inputs()))

    def plain(self, x):
        return plain(x)


def _detail(detail, e, model):
    if detail is None:
        return None
    if callable(detail):
        try:
            saved = e.eval_model
            e.eval_model = model if model is not None else e.model()
            try:
                return plain(detail())
            finally:
                e.eval_model = saved
        except Exception as ex:  # detail is best effort
            return "detail failed: %r" % (ex,)
    return plain(detail)


def plain(x):
    """JSON-able rendering of an observation (proxies are evaluated under the current model)."""
    if x is None or isinstance(x, (bool, int, float, str)):
        return x
    if isinstance(x, (list, tuple)):
        return [plain(i) for i in x]
    if isinstance(x, dict):
        return {str(plain(k)): plain(v) for k, v in x.items()}
    p = getattr(x, "__plain__", None)
    if p is not None:
        return p()
    # ckl values and anything else: class name + text
    import symex.shims as sh
    return type(x).__name__ + ":" + str(sh.sym_str(x))
