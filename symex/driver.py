"""check driver: cells -> worker pool -> symbolic exploration -> replay on pristine code ->
verdict, evidence, exit code (0 held / 1 VIOLATION / 3 engine or inconclusive)."""
import argparse
import hashlib
import importlib
import json
import multiprocessing
import os
import sys
import time
import traceback

VERIF = os.path.dirname(os.path.dirname(os.path.abspath(__file__)))
if VERIF not in sys.path:
    sys.path.insert(0, VERIF)

from symex import core, loader, oracle  # noqa: E402

EXIT_OK, EXIT_VIOLATION, EXIT_ENGINE = 0, 1, 3
MAX_REPLAYS_PER_LABEL = 2

_W = {}  # per worker state


def _winit(hname):
    _W["oracle"] = oracle.Oracle()
    _W["mod"] = importlib.import_module("harness." + hname)
    _W["hname"] = hname
    sys.setrecursionlimit(20000)


def _obs_equal(a, b):
    return json.dumps(a, sort_keys=True) == json.dumps(b, sort_keys=True)


def run_cell(args):
    cell, opts = args
    mod, orc, hname = _W["mod"], _W["oracle"], _W["hname"]
    t0 = time.time()
    c0 = time.process_time()
    eng = core.Engine(max_decisions=getattr(mod, "MAX_DECISIONS", 20000),
                      path_seconds=getattr(mod, "PATH_SECONDS", 20),
                      solver_timeout_ms=getattr(mod, "SOLVER_TIMEOUT_MS", 20000),
                      max_folded=getattr(mod, "MAX_FOLDED", None))
    otime = getattr(mod, "ORACLE_TIMEOUT", 10)
    res = {"cell": cell, "stats": None, "classes": set(), "violations": [], "engine": [],
           "samples": [], "validated": 0, "unsupported": [], "spurious": [], "unknowns": 0,
           "exhaustive": True}
    holder = [None]
    seen_labels = {}

    def fn():
        ctx = core.SymCtx(eng)
        holder[0] = ctx
        return mod.run(ctx, cell)

    validate = getattr(mod, "CROSS_VALIDATE", True)
    ndiv = 0
    stop_cell = False
    cell_seconds = getattr(mod, "CELL_SECONDS", 240)
    if opts.get("tier") == "thorough":
        cell_seconds = getattr(mod, "CELL_SECONDS_THOROUGH", 4 * cell_seconds)
    try:
        for rec in eng.explore(fn, max_paths=getattr(mod, "MAX_PATHS", 200000)):
            if stop_cell:
                res["exhaustive"] = False
                break
            if time.process_time() - c0 > cell_seconds:
                res["engine"].append("cell budget of %ds cpu exhausted: cell=%s" % (cell_seconds, json.dumps(cell)))
                res["exhaustive"] = False
                break
            ctx = holder[0]
            st = rec["status"]
            if st == "abort":
                # obligations refuted before the path became infeasible still count
                _replay_candidates(res, seen_labels, ctx, mod, orc, hname, cell, otime)
                res["classes"] |= ctx.classes
                res["unknowns"] += len(ctx.unknowns)
                continue
            res["classes"] |= ctx.classes
            res["unknowns"] += len(ctx.unknowns)
            if st != "ok":
                _replay_candidates(res, seen_labels, ctx, mod, orc, hname, cell, otime)
            if st == "harness_exc":
                e = rec["exc"]
                res["engine"].append("harness exception %s: %s\n%s" % (
                    type(e).__name__, e, "".join(traceback.format_tb(e.__traceback__)[-6:])))
                continue
            if st == "inconclusive":
                res["engine"].append("inconclusive: %s" % rec["exc"])
                continue
            try:
                model = eng.model()
                inputs = ctx.inputs(model)
            except core.Inconclusive:
                res["engine"].append("no model for finished path cell=%s" % json.dumps(cell))
                continue
            if st == "unsupported":
                res["unsupported"].append(str(rec["exc"]))
                r = orc.call(hname, cell, inputs, otime)   # degraded: witness run concretely
                for lab, det in r.get("failed", []):
                    _cand(res, seen_labels, lab, det, inputs, r, confirmed=True)
                continue
            if st == "diverged":
                ndiv += 1
                r = orc.call(hname, cell, inputs, otime)
                if r["status"] == "timeout":
                    stop_cell = True           # confirmed (twice, the second time with a long budget): do not burn the cell
                    _cand(res, seen_labels, getattr(mod, "DIVERGE_LABEL", "non-termination"),
                          str(rec["exc"]), inputs, r, confirmed=True)
                else:
                    for lab, det in r.get("failed", []):
                        _cand(res, seen_labels, lab, det, inputs, r, confirmed=True)
                    res["engine"].append("path budget exhausted but pristine run returns: cell=%s %r" % (
                        json.dumps(cell), inputs))
                continue
            # ok path: cross-validate the observation under the path's model
            eng.eval_model = model
            try:
                obs = core.plain(rec["value"])
            except BaseException as e:  # noqa
                res["engine"].append("cannot render observation: %r" % (e,))
                eng.eval_model = None
                continue
            eng.eval_model = None
            if len(res["samples"]) < 3:
                res["samples"].append({"inputs": inputs, "obs": obs,
                                       "failed": [c[0] for c in ctx.candidates]})
            if validate:
                r = orc.call(hname, cell, inputs, otime)
                if r["status"] != "ok":
                    if r["status"] == "timeout":
                        _cand(res, seen_labels, getattr(mod, "DIVERGE_LABEL", "non-termination"),
                              "pristine run does not return", inputs, r, confirmed=True)
                    else:
                        res["engine"].append("oracle %s for %r: %s" % (
                            r["status"], inputs, r.get("exc", "") + r.get("tb", "")))
                elif not _obs_equal(obs, r["obs"]):
                    res["engine"].append("ENGINE-MISMATCH cell=%s inputs=%r symbolic=%r pristine=%r" % (
                        json.dumps(cell), inputs, obs, r["obs"]))
                else:
                    res["validated"] += 1
                    # any concrete failure on the path's own witness is a confirmed violation
                    for lab, det in r.get("failed", []):
                        _cand(res, seen_labels, lab, det, inputs, r, confirmed=True)
            _replay_candidates(res, seen_labels, ctx, mod, orc, hname, cell, otime)
    except core.EngineError as e:
        res["engine"].append("engine: %s" % e)
        res["exhaustive"] = False
    except BaseException as e:  # noqa
        res["engine"].append("worker: %s\n%s" % (e, traceback.format_exc()[-1200:]))
        res["exhaustive"] = False
    res["stats"] = eng.stats.as_dict()
    res["classes"] = sorted(res["classes"])
    res["wall"] = time.time() - t0
    res["oracle_calls"] = orc.calls
    return res


def _replay_candidates(res, seen_labels, ctx, mod, orc, hname, cell, otime):
    for lab, det, cin in ctx.candidates:
        n = seen_labels.get(lab, 0)
        if n >= MAX_REPLAYS_PER_LABEL:
            continue
        r = orc.call(hname, cell, dict(cin, __replay__=lab), otime)
        labs = [f[0] for f in r.get("failed", [])]
        if lab in labs:
            d2 = [f[1] for f in r["failed"] if f[0] == lab][0]
            _cand(res, seen_labels, lab, d2 if d2 is not None else det, cin, r, confirmed=True)
        elif r["status"] == "timeout":
            _cand(res, seen_labels, getattr(mod, "DIVERGE_LABEL", "non-termination"),
                  det, cin, r, confirmed=True)
        else:
            res["spurious"].append({"label": lab, "inputs": cin, "detail": det, "oracle": r})


def _cand(res, seen, label, detail, inputs, r, confirmed):
    n = seen.get(label, 0)
    seen[label] = n + 1
    if n >= MAX_REPLAYS_PER_LABEL:
        return
    res["violations"].append({"label": label, "detail": detail, "inputs": inputs,
                              "cell": res["cell"], "obs": r.get("obs")})


def load_known(pid):
    p = os.path.join(VERIF, "known_findings.json")
    if not os.path.exists(p):
        return {}
    data = json.load(open(p))
    return {f["key"]: f for f in data.get("findings", []) if f.get("property") == pid}


def main(argv=None):
    import warnings
    warnings.filterwarnings("ignore", category=FutureWarning)
    ap = argparse.ArgumentParser()
    ap.add_argument("prop")
    ap.add_argument("--tier", default=os.environ.get("VERIF_TIER", "quick"))
    ap.add_argument("--replay")
    ap.add_argument("--jobs", type=int, default=int(os.environ.get("VERIF_JOBS", "16")))
    ap.add_argument("--cells", help="only cells whose json contains this text")
    ap.add_argument("--verbose", "-v", action="store_true")
    a = ap.parse_args(argv)
    pid = a.prop.upper()
    hname = pid.lower()
    seed = int(os.environ.get("VERIF_SEED", "0"))
    t0 = time.time()

    if a.replay:
        return do_replay(hname, pid, a.replay)

    loader.install()           # transformed working tree for the symbolic side
    tv = translation_validation()
    if tv:
        print("ENGINE: loader translation validation failed: %s" % tv)
        return EXIT_ENGINE
    mod = importlib.import_module("harness." + hname)
    cells = mod.cells(a.tier, seed)
    if a.cells:
        cells = [c for c in cells if a.cells in json.dumps(c)]
    opts = {"tier": a.tier}
    results = []
    if a.jobs <= 1:
        _winit(hname)
        for c in cells:
            results.append(run_cell((c, opts)))
    else:
        ctx = multiprocessing.get_context("fork")
        with ctx.Pool(a.jobs, initializer=_winit, initargs=(hname,)) as pool:
            for r in pool.imap_unordered(run_cell, [(c, opts) for c in cells], chunksize=1):
                results.append(r)
                if a.verbose:
                    print("  cell %s paths=%d wall=%.1fs" % (json.dumps(r["cell"]),
                          r["stats"]["paths"] if r["stats"] else -1, r["wall"]), file=sys.stderr)
    return report(pid, mod, a, seed, cells, results, time.time() - t0)


def report(pid, mod, a, seed, cells, results, wall):
    stats = core.Stats()
    classes = set()
    violations, engine, spurious, unsupported, samples = [], [], [], [], []
    validated = unknowns = 0
    for r in results:
        stats.add(r["stats"] or {})
        classes |= set(r["classes"])
        violations += r["violations"]
        engine += r["engine"]
        spurious += r["spurious"]
        unsupported += [(r["cell"], u) for u in r["unsupported"]]
        validated += r["validated"]
        unknowns += r["unknowns"]
        if r["samples"] and len(samples) < 6:
            samples.append({"cell": r["cell"], **r["samples"][0]})
    known = load_known(pid)
    rc = EXIT_OK
    new, seen_known = [], {}
    for v in violations:
        k = v["label"]
        if k in known:
            seen_known.setdefault(k, v)
        else:
            new.append(v)
    for k, v in sorted(seen_known.items()):
        print("KNOWN-FINDING: property=%s %s witness=%s" % (pid, k, json.dumps(v["inputs"])[:300]))
    os.makedirs(os.path.join(VERIF, "replays"), exist_ok=True)
    done = set()
    for v in new:
        if v["label"] in done:
            continue
        done.add(v["label"])
        h = hashlib.sha1(json.dumps([v["label"], v["cell"], v["inputs"]], sort_keys=True).encode()).hexdigest()[:10]
        path = os.path.join(VERIF, "replays", "%s-%s.json" % (pid, h))
        json.dump({"property": pid, "harness": pid.lower(), "label": v["label"], "cell": v["cell"],
                   "inputs": v["inputs"], "detail": v["detail"], "observed": v["obs"],
                   "replay_cmd": "./check %s --replay %s" % (pid, path)}, open(path, "w"), indent=1)
        print("VIOLATION property=%s replay=%s" % (pid, path))
        if a.verbose or True:
            print("   key=%s detail=%s inputs=%s" % (v["label"], json.dumps(v["detail"])[:300],
                                                     json.dumps(v["inputs"])[:300]))
        rc = EXIT_VIOLATION
    problems = []
    if engine:
        problems.append("%d engine problems, first: %s" % (len(engine), engine[0][:1500]))
    if spurious:
        problems.append("%d candidates did not reproduce on pristine code, first: %s" % (
            len(spurious), json.dumps(spurious[0])[:1200]))
    if unknowns:
        problems.append("%d obligations with solver answer unknown" % unknowns)
    need = set(getattr(mod, "REACH", ()))
    if not a.cells and need - classes:
        problems.append("VACUOUS: outcome classes never reached: %s" % sorted(need - classes))
    tol = getattr(mod, "TOLERATE_UNSUPPORTED", 0)
    if len(unsupported) > tol:
        problems.append("%d unsupported paths (tolerance %d), first: %s" % (
            len(unsupported), tol, unsupported[0]))
    if stats.unknown:
        problems.append("%d solver queries returned unknown" % stats.unknown)
    if stats.obligations != stats.discharged and not (violations or spurious or unknowns):
        problems.append("%d obligations neither discharged nor reported" % (
            stats.obligations - stats.discharged))
    for pmsg in problems:
        print("ENGINE: " + pmsg)
    if a.verbose:
        for e in engine[:40]:
            print("  engine: " + e[:600])
    if problems and rc == EXIT_OK:
        rc = EXIT_ENGINE
    ev = {
        "property_id": pid, "tier": a.tier if a.tier in ("quick", "thorough") else "quick",
        "seed": seed, "level": "model_checking",
        "coverage": {
            "states": stats.paths, "transitions": stats.decisions,
            "traces_validated_against_impl": validated,
            "obligations": stats.obligations, "discharged": stats.discharged,
            "samples": samples or [{"note": "no completed path"}],
            "exhaustive": not problems,
            "cells": len(cells), "solver_queries": stats.queries, "solver_sat": stats.sat,
            "solver_unsat": stats.unsat, "solver_unknown": stats.unknown,
            "solver_s": round(stats.solver_s, 2), "paths_unsupported": len(unsupported),
            "paths_diverged": stats.diverged, "concretisation_forks": stats.forks_concretise,
            "outcome_classes_reached": sorted(classes),
            "functions_encoded": getattr(mod, "FUNCTIONS", []),
            "bounds": mod.bounds(a.tier) if hasattr(mod, "bounds") else {},
            "outside_claim": getattr(mod, "OUTSIDE", []),
            "loader": {k: v for k, v in loader.STATS.items() if k != "files"},
            "known_findings_reconfirmed": sorted(seen_known),
            "explanation": "bounded symbolic execution of the real code (z3 decides every branch "
                           "and obligation); states = explored path classes, transitions = "
                           "solver-decided branch decisions",
        },
        "assumptions": getattr(mod, "ASSUMPTIONS", []) + [
            "proxies/shims implement CPython semantics (each path's witness is re-run on the "
            "pristine interpreter and compared)", "z3 answers are trusted"],
        "wall_s": round(wall, 2), "violations": len(done),
    }
    # evidence under /verif/evidence describes /repo only: a development run pointed at a scratch worktree
    # (VERIF_REPO) writes its evidence to a scratch directory instead
    evdir = os.path.join(VERIF, "evidence")
    if os.path.realpath(os.environ.get("VERIF_REPO", "/repo")) != os.path.realpath("/repo"):
        evdir = os.path.join("/tmp", "verif_scratch_evidence")
    os.makedirs(evdir, exist_ok=True)
    json.dump(ev, open(os.path.join(evdir, pid + ".json"), "w"), indent=1)
    print("%s tier=%s cells=%d paths=%d decisions=%d queries=%d obligations=%d/%d validated=%d "
          "solver=%.1fs wall=%.1fs rc=%d" % (pid, a.tier, len(cells), stats.paths, stats.decisions,
                                             stats.queries, stats.discharged, stats.obligations,
                                             validated, stats.solver_s, wall, rc))
    return rc


def do_replay(hname, pid, path):
    rep = json.load(open(path))
    o = oracle.Oracle()
    r = o.call(hname, rep["cell"], dict(rep["inputs"], __replay__=rep["label"]), 60)
    o.close()
    labs = [f[0] for f in r.get("failed", [])]
    print(json.dumps(r)[:2000])
    if rep["label"] in labs or r["status"] == "timeout":
        print("VIOLATION property=%s replay=%s" % (pid, path))
        return EXIT_VIOLATION
    print("replay does not fail on the current tree")
    return EXIT_OK


def translation_validation():
    """the repo's own tests, run through the transformed modules in concrete mode"""
    import glob
    import importlib.util
    import types
    import contextlib
    if os.environ.get("VERIF_SKIP_TV"):
        return None

    @contextlib.contextmanager
    def raises(exc):
        try:
            yield
        except exc:
            return
        raise AssertionError("did not raise")
    stub = types.ModuleType("pytest")
    stub.raises = raises
    had = sys.modules.get("pytest")
    sys.modules["pytest"] = stub
    ok = bad = 0
    first = None
    import io
    real_stdout = sys.stdout
    sys.stdout = io.StringIO()
    try:
        for fn in sorted(glob.glob(os.path.join(loader.repo_root(), "tests", "test_*.py"))):
            spec = importlib.util.spec_from_file_location("tv_" + os.path.basename(fn)[:-3], fn)
            m = importlib.util.module_from_spec(spec)
            try:
                spec.loader.exec_module(m)
            except Exception as e:
                return "cannot import %s: %r" % (fn, e)
            for name in dir(m):
                if name.startswith("test") and callable(getattr(m, name)):
                    try:
                        getattr(m, name)()
                        ok += 1
                    except Exception as e:
                        bad += 1
                        if first is None:
                            first = "%s::%s %s: %s" % (os.path.basename(fn), name,
                                                       type(e).__name__, str(e)[:200])
    finally:
        sys.stdout = real_stdout
        if had is not None:
            sys.modules["pytest"] = had
        else:
            del sys.modules["pytest"]
    loader.STATS["tv_tests_passed"] = ok
    loader.STATS["tv_tests_failed"] = bad
    # a test failing on the working tree itself is not a loader problem: compare with pristine
    if bad:
        return "%d of %d repo tests fail through the transformed modules, first: %s" % (
            bad, ok + bad, first)
    return None


if __name__ == "__main__":
    sys.exit(main())
