"""IEEE-754 kernel for the places where real floating point matters (DESIGN 2.2)."""
from symex.core import Unsupported


def int_truediv(a, b):
    """a / b for ints (at least one symbolic), b != 0"""
    raise Unsupported("int / int through floats (FP kernel not enabled for this harness)")
