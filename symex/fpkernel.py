"""IEEE-754 kernel: trace the real code on floating point / bit-vector terms and let an SMT
solver (cvc5, z3 as fallback) decide the obligation for ALL inputs of a fixed-path computation.

Unlike the forking engine this is a single-path ("concolic") tracer: every proxy carries a z3 term
and a concrete shadow value for one sample input.  A branch on a proxy follows the shadow and
records the branch condition; at the end the obligation is

     for all inputs in range:   every recorded branch condition holds  AND  property(result)

so inputs that would take a different path make the obligation fail (they are then replayed
concretely).  Used for the time-of-day tail of C17 (to_oa_date / to_date on a fixed calendar day)."""
import os
import subprocess
import tempfile
import time

import z3

from symex.core import Unsupported

RNE = z3.RNE()
F64 = z3.Float64()
W = 64

TRACE = None


class Trace:
    def __init__(self):
        self.conds = []        # z3 Bool terms that must hold for every input (path + side conditions)
        self.vars = []         # (name, bv term, lo, hi)

    def var(self, name, bits, lo, hi, shadow):
        v = z3.BitVec(name, bits)
        self.vars.append((name, v, lo, hi))
        return BV(z3.ZeroExt(W - bits, v), shadow)

    def range_constraints(self):
        return [z3.And(z3.UGE(v, lo), z3.ULE(v, hi)) for _, v, lo, hi in self.vars]


def start():
    global TRACE
    TRACE = Trace()
    return TRACE


def _fp_const(x):
    return z3.FPVal(float(x), F64)


class Cond:
    """boolean with a term and a shadow; taking it as a Python bool records the path condition"""
    __slots__ = ("t", "s")

    def __init__(self, t, s):
        self.t, self.s = t, bool(s)

    def __bool__(self):
        TRACE.conds.append(self.t if self.s else z3.Not(self.t))
        return self.s


class BV:
    """signed 64-bit integer term with shadow"""
    __slots__ = ("t", "s")

    def __init__(self, t, s):
        self.t, self.s = t, int(s)

    @staticmethod
    def lift(o):
        if isinstance(o, BV):
            return o
        if isinstance(o, bool):
            o = int(o)
        if isinstance(o, int):
            return BV(z3.BitVecVal(o, W), o)
        return None

    def _bin(self, o, ft, fs):
        o = BV.lift(o)
        if o is None:
            return NotImplemented
        return BV(ft(self.t, o.t), fs(self.s, o.s))

    def __add__(self, o):
        if isinstance(o, (float, FP)):
            return self.to_fp() + o
        return self._bin(o, lambda a, b: a + b, lambda a, b: a + b)

    def __radd__(self, o):
        if isinstance(o, (float, FP)):
            return o + self.to_fp() if isinstance(o, FP) else FP.lift(o) + self.to_fp()
        return self._bin(o, lambda a, b: b + a, lambda a, b: b + a)

    def __sub__(self, o):
        if isinstance(o, (float, FP)):
            return self.to_fp() - o
        return self._bin(o, lambda a, b: a - b, lambda a, b: a - b)

    def __rsub__(self, o):
        if isinstance(o, (float, FP)):
            return FP.lift(o) - self.to_fp()
        return self._bin(o, lambda a, b: b - a, lambda a, b: b - a)

    def __mul__(self, o):
        if isinstance(o, (float, FP)):
            return self.to_fp() * o
        return self._bin(o, lambda a, b: a * b, lambda a, b: a * b)

    __rmul__ = __mul__

    def __neg__(self):
        return BV(-self.t, -self.s)

    def _nonneg(self):
        TRACE.conds.append(self.t >= 0)       # side condition: floor/trunc division coincide

    def __floordiv__(self, o):
        if not (isinstance(o, int) and o > 0):
            raise Unsupported("BV // non-constant")
        self._nonneg()
        return BV(z3.UDiv(self.t, z3.BitVecVal(o, W)), self.s // o)

    def __mod__(self, o):
        if not (isinstance(o, int) and o > 0):
            raise Unsupported("BV % non-constant")
        self._nonneg()
        return BV(z3.URem(self.t, z3.BitVecVal(o, W)), self.s % o)

    def __divmod__(self, o):
        return (self // o, self % o)

    def __truediv__(self, o):
        return self.to_fp() / o

    def to_fp(self):
        return FP(z3.fpSignedToFP(RNE, self.t, F64), float(self.s))

    def _cmp(self, o, ft, fs):
        if isinstance(o, (float, FP)):
            return self.to_fp()._cmp(o, ft, fs)
        o = BV.lift(o)
        if o is None:
            return NotImplemented
        return Cond(ft(self.t, o.t), fs(self.s, o.s))

    def __lt__(self, o): return self._cmp(o, lambda a, b: a < b, lambda a, b: a < b)
    def __le__(self, o): return self._cmp(o, lambda a, b: a <= b, lambda a, b: a <= b)
    def __gt__(self, o): return self._cmp(o, lambda a, b: a > b, lambda a, b: a > b)
    def __ge__(self, o): return self._cmp(o, lambda a, b: a >= b, lambda a, b: a >= b)
    def __eq__(self, o): return self._cmp(o, lambda a, b: a == b, lambda a, b: a == b)
    def __ne__(self, o): return self._cmp(o, lambda a, b: a != b, lambda a, b: a != b)
    def __hash__(self): return hash(self.s)

    def pin(self):
        """record `term == shadow` as a condition and continue with the plain int"""
        TRACE.conds.append(self.t == z3.BitVecVal(self.s, W))
        return self.s

    def __index__(self):
        return self.pin()

    __int__ = __index__
    def __trunc__(self): return self
    def __floor__(self): return self
    def __round__(self, n=None): return self
    def __repr__(self): return "BV(%d)" % self.s
    def __plain__(self): return self.s


class FP:
    """IEEE double term with shadow"""
    __slots__ = ("t", "s")

    def __init__(self, t, s):
        self.t, self.s = t, float(s)

    @staticmethod
    def lift(o):
        if isinstance(o, FP):
            return o
        if isinstance(o, BV):
            return o.to_fp()
        if isinstance(o, (int, float)) and not isinstance(o, bool):
            if isinstance(o, int) and abs(o) > 2 ** 53:
                raise Unsupported("int constant beyond 2^53 in float arithmetic")
            return FP(_fp_const(o), float(o))
        return None

    def _bin(self, o, ft, fs):
        o = FP.lift(o)
        if o is None:
            return NotImplemented
        return FP(ft(self.t, o.t), fs(self.s, o.s))

    def __add__(self, o): return self._bin(o, lambda a, b: z3.fpAdd(RNE, a, b), lambda a, b: a + b)
    def __radd__(self, o): return self._bin(o, lambda a, b: z3.fpAdd(RNE, b, a), lambda a, b: b + a)
    def __sub__(self, o): return self._bin(o, lambda a, b: z3.fpSub(RNE, a, b), lambda a, b: a - b)
    def __rsub__(self, o): return self._bin(o, lambda a, b: z3.fpSub(RNE, b, a), lambda a, b: b - a)
    def __mul__(self, o): return self._bin(o, lambda a, b: z3.fpMul(RNE, a, b), lambda a, b: a * b)
    def __rmul__(self, o): return self._bin(o, lambda a, b: z3.fpMul(RNE, b, a), lambda a, b: b * a)
    def __truediv__(self, o): return self._bin(o, lambda a, b: z3.fpDiv(RNE, a, b), lambda a, b: a / b)
    def __rtruediv__(self, o): return self._bin(o, lambda a, b: z3.fpDiv(RNE, b, a), lambda a, b: b / a)
    def __neg__(self): return FP(z3.fpNeg(self.t), -self.s)

    def _cmp(self, o, ft, fs):
        o = FP.lift(o)
        if o is None:
            return NotImplemented
        m = {"lt": z3.fpLT, "le": z3.fpLEQ, "gt": z3.fpGT, "ge": z3.fpGEQ, "eq": z3.fpEQ}
        return Cond(ft(self.t, o.t), fs(self.s, o.s))

    def __lt__(self, o): return self._cmp(o, z3.fpLT, lambda a, b: a < b)
    def __le__(self, o): return self._cmp(o, z3.fpLEQ, lambda a, b: a <= b)
    def __gt__(self, o): return self._cmp(o, z3.fpGT, lambda a, b: a > b)
    def __ge__(self, o): return self._cmp(o, z3.fpGEQ, lambda a, b: a >= b)
    def __eq__(self, o): return self._cmp(o, z3.fpEQ, lambda a, b: a == b)
    def __ne__(self, o): return self._cmp(o, lambda a, b: z3.Not(z3.fpEQ(a, b)), lambda a, b: a != b)
    def __hash__(self): return hash(self.s)

    def _to_int(self, rm, shadow):
        import math
        r = z3.fpRoundToIntegral(rm, self.t)
        return BV(z3.fpToSBV(rm, r, z3.BitVecSort(W)), shadow)

    def __floor__(self):
        import math
        return self._to_int(z3.RTN(), math.floor(self.s))

    def __ceil__(self):
        import math
        return self._to_int(z3.RTP(), math.ceil(self.s))

    def __trunc__(self):
        import math
        return self._to_int(z3.RTZ(), math.trunc(self.s))

    __int__ = __trunc__

    def __round__(self, n=None):
        if n is not None:
            raise Unsupported("round(x, n) on symbolic float")
        return self._to_int(z3.RNE(), round(self.s))

    def __repr__(self): return "FP(%r)" % self.s
    def __plain__(self): return self.s


def register():
    """let the shims treat the kernel's proxies as symbolic values"""
    import symex.proxies as p
    if BV not in p.SYM_TYPES:
        p.SYM_TYPES = p.SYM_TYPES + (BV, FP)


# ---- deciding the obligation -------------------------------------------------------------------
def decide(trace, goal, timeout_s=600):
    """is (ranges -> all conds and goal) valid?  returns ('unsat'|'sat'|'unknown', model or None, stats)"""
    s = z3.Solver()
    for c in trace.range_constraints():
        s.add(c)
    ok = z3.And(trace.conds + [goal]) if trace.conds else goal
    s.add(z3.Not(ok))
    smt = "(set-logic QF_BVFP)\n" + s.to_smt2()
    stats = {"conds": len(trace.conds), "solver": None, "seconds": 0.0}
    t0 = time.time()
    res, model = "unknown", None
    # cvc5 first (decides these obligations in minutes where z3 does not)
    try:
        with tempfile.NamedTemporaryFile("w", suffix=".smt2", delete=False) as f:
            f.write(smt.replace("(check-sat)", "(check-sat)\n(get-model)"))
            fn = f.name
        try:
            p = subprocess.run(["cvc5", "--produce-models", "--tlimit=%d" % (timeout_s * 1000), fn],
                               capture_output=True, text=True, timeout=timeout_s + 30)
            out = p.stdout.strip().splitlines()
            if out and out[0] in ("sat", "unsat"):
                res = out[0]
                stats["solver"] = "cvc5"
                if res == "sat":
                    model = _parse_cvc5_model(p.stdout, trace)
        finally:
            os.unlink(fn)
    except (OSError, subprocess.TimeoutExpired):
        pass
    if res == "unknown":
        s.set("timeout", int(timeout_s * 1000))
        r = s.check()
        if r == z3.sat:
            res, stats["solver"] = "sat", "z3"
            m = s.model()
            model = {name: m.eval(v, model_completion=True).as_long() for name, v, _, _ in trace.vars}
        elif r == z3.unsat:
            res, stats["solver"] = "unsat", "z3"
    stats["seconds"] = round(time.time() - t0, 2)
    return res, model, stats


def _parse_cvc5_model(text, trace):
    import re
    model = {}
    for name, v, _, _ in trace.vars:
        m = re.search(r"\(define-fun %s \(\) \(_ BitVec \d+\) #([bx])([0-9a-fA-F]+)\)" % re.escape(name), text)
        if m:
            model[name] = int(m.group(2), 2 if m.group(1) == "b" else 16)
    return model


def int_truediv(a, b):
    """a / b for engine ints (SymInt): real floating point is not modelled in the forking engine"""
    raise Unsupported("int / int through floats (only modelled by the FP kernel)")
