"""IEEE-754 kernel for the two places where real floating point matters (DESIGN 2.2)."""
from symex.core import Unsupported


def int_truediv(at, bt):
    raise Unsupported("int / int through floats (FP kernel not enabled for this harness)")
