"""Import ckl.* from <repo>/src through an AST rewriting loader (DESIGN 2.3).

Nothing is cached: source is read from the working tree at import time.
"""
import ast
import importlib.abc
import importlib.machinery
import importlib.util
import os
import sys

from symex import shims

CALLS = {"int", "float", "str", "chr", "ord", "range", "abs", "round", "len", "sorted", "min",
         "max", "hash", "repr", "isinstance", "set"}
MODS = {"math": "__sym_math__", "re": "__sym_re__", "datetime": "__sym_datetime__"}
STR_METHODS = {"find", "rfind", "index", "rindex", "count", "startswith", "endswith", "replace",
               "split", "strip", "lstrip", "rstrip", "partition"}
STATS = {"strmeth": 0, "in": 0, "calls": 0, "modcalls": 0, "fstr": 0, "join": 0, "files": []}
LINT = []  # sites invisible to the engine: type(x) == T, `is` on possibly symbolic data


def _name(id_):
    return ast.Name(id=id_, ctx=ast.Load())


class T(ast.NodeTransformer):
    def __init__(self, path):
        self.path = path

    def visit_Compare(self, node):
        self.generic_visit(node)
        if len(node.ops) == 1 and isinstance(node.ops[0], (ast.In, ast.NotIn)):
            STATS["in"] += 1
            call = ast.Call(func=_name("__sym_in__"), args=[node.left, node.comparators[0]],
                            keywords=[])
            if isinstance(node.ops[0], ast.NotIn):
                return ast.UnaryOp(op=ast.Not(), operand=call)
            return call
        if (len(node.ops) == 1 and isinstance(node.ops[0], ast.Eq)
                and isinstance(node.left, ast.Call) and isinstance(node.left.func, ast.Name)
                and node.left.func.id == "type"):
            LINT.append("%s:%d type(x) == T" % (os.path.basename(self.path), node.lineno))
        return node

    def visit_Call(self, node):
        self.generic_visit(node)
        f = node.func
        if isinstance(f, ast.Name) and f.id in CALLS:
            STATS["calls"] += 1
            node.func = ast.Attribute(value=_name("__sym__"), attr=f.id, ctx=ast.Load())
        elif (isinstance(f, ast.Attribute) and f.attr == "join" and len(node.args) == 1
              and not node.keywords and not (isinstance(f.value, ast.Attribute)
                                             and f.value.attr == "path")):
            STATS["join"] += 1
            return ast.Call(func=ast.Attribute(value=_name("__sym__"), attr="join", ctx=ast.Load()),
                            args=[f.value, node.args[0]], keywords=[])
        elif isinstance(f, ast.Attribute) and f.attr in STR_METHODS and not node.keywords:
            STATS["strmeth"] += 1
            return ast.Call(func=ast.Attribute(value=_name("__sym__"), attr="strmeth", ctx=ast.Load()),
                            args=[ast.Constant(value=f.attr), f.value] + node.args, keywords=[])
        elif isinstance(f, ast.Attribute):
            root = f
            chain = []
            while isinstance(root, ast.Attribute):
                chain.append(root)
                root = root.value
            if isinstance(root, ast.Name) and root.id in MODS:
                STATS["modcalls"] += 1
                root.id = MODS[root.id]
        return node

    def visit_JoinedStr(self, node):
        self.generic_visit(node)
        STATS["fstr"] += 1
        parts = []
        for v in node.values:
            if isinstance(v, ast.FormattedValue):
                spec = v.format_spec if v.format_spec is not None else ast.Constant(value="")
                parts.append(ast.Tuple(elts=[v.value, ast.Constant(value=v.conversion), spec],
                                       ctx=ast.Load()))
            else:
                parts.append(v)
        return ast.Call(func=ast.Attribute(value=_name("__sym__"), attr="fstr", ctx=ast.Load()),
                        args=parts, keywords=[])


class Loader(importlib.machinery.SourceFileLoader):
    def source_to_code(self, data, path, *, _optimize=-1):
        tree = ast.parse(data, path)
        tree = T(path).visit(tree)
        ast.fix_missing_locations(tree)
        STATS["files"].append(path)
        return compile(tree, path, "exec", dont_inherit=True, optimize=_optimize)

    def exec_module(self, module):
        d = module.__dict__
        d["__sym_in__"] = shims.sym_in
        d["__sym__"] = shims.B
        d["__sym_math__"] = shims.MATH
        d["__sym_re__"] = shims.RE
        d["__sym_datetime__"] = shims.DATETIME
        super().exec_module(module)

    def get_code(self, fullname):  # never use a bytecode cache
        p = self.get_filename(fullname)
        return self.source_to_code(self.get_data(p), p)


class Finder(importlib.abc.MetaPathFinder):
    def __init__(self, root):
        self.root = root

    def find_spec(self, fullname, path, target=None):
        if fullname != "ckl" and not fullname.startswith("ckl."):
            return None
        base = os.path.join(self.root, *fullname.split("."))
        if os.path.isdir(base):
            fn = os.path.join(base, "__init__.py")
            return importlib.util.spec_from_file_location(
                fullname, fn, loader=Loader(fullname, fn), submodule_search_locations=[base])
        fn = base + ".py"
        if os.path.exists(fn):
            return importlib.util.spec_from_file_location(fullname, fn, loader=Loader(fullname, fn))
        return None


def repo_root():
    return os.environ.get("VERIF_REPO", "/repo")


_installed = False


def install():
    """make `import ckl...` load the transformed working tree"""
    global _installed
    if _installed:
        return
    sys.dont_write_bytecode = True
    for m in [m for m in sys.modules if m == "ckl" or m.startswith("ckl.")]:
        del sys.modules[m]
    sys.meta_path.insert(0, Finder(os.path.join(repo_root(), "src")))
    _installed = True


def install_pristine():
    """make `import ckl...` load the untouched working tree (oracle process)"""
    sys.dont_write_bytecode = True
    src = os.path.join(repo_root(), "src")
    if src not in sys.path:
        sys.path.insert(0, src)
