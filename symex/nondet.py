"""NondetSet: a host set whose iteration order is an arbitrary (symbolic) permutation.

Models "the host's set iteration order is unspecified" (hash seeds, insertion history): every
iteration of the raw container follows a permutation drawn by the engine -- one per set object,
re-drawn after the set changed size.  In identity mode the order is the canonical one."""
import builtins

STATE = {"enabled": False, "mode": "identity", "ctx": None, "count": 0}


def enable(ctx, mode):
    STATE.update(enabled=True, mode=mode, ctx=ctx, count=0)


def disable():
    STATE.update(enabled=False, ctx=None)


class NondetSet(builtins.set):
    __slots__ = ("_perm", "_n")

    def __init__(self, *a):
        builtins.set.__init__(self, *a)
        self._perm = None
        self._n = -1

    def __iter__(self):
        items = builtins.sorted(builtins.set.__iter__(self), key=lambda v: (type(v).__name__, builtins.repr(v)))
        if not STATE["enabled"] or STATE["mode"] == "identity" or len(items) < 2:
            return iter(items)
        if self._perm is None or self._n != len(items):
            STATE["count"] += 1
            self._perm = STATE["ctx"].perm("order%d" % STATE["count"], len(items))
            self._n = len(items)
        return iter([items[i] for i in self._perm])

    def _wrap(self, r):
        return NondetSet(builtins.set.__iter__(r)) if r is not NotImplemented else r

    def __or__(self, o): return self._wrap(builtins.set.__or__(self, o))
    def __and__(self, o): return self._wrap(builtins.set.__and__(self, o))
    def __sub__(self, o): return self._wrap(builtins.set.__sub__(self, o))
    def __xor__(self, o): return self._wrap(builtins.set.__xor__(self, o))
    def __ror__(self, o): return self._wrap(builtins.set.__ror__(self, o))
    def copy(self): return NondetSet(builtins.set.__iter__(self))
    def union(self, *o): return self._wrap(builtins.set.union(self, *o))
    def intersection(self, *o): return self._wrap(builtins.set.intersection(self, *o))
    def difference(self, *o): return self._wrap(builtins.set.difference(self, *o))


def make_set(*a):
    if STATE["enabled"]:
        if a and isinstance(a[0], builtins.set) and not isinstance(a[0], NondetSet):
            return NondetSet(a[0])
        return NondetSet(*a)
    return builtins.set(*a)
