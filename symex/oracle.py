"""Pristine oracle: a child /venv/bin/python process running the untouched ckl package.

server:  python -m symex.oracle      (stdin/stdout JSON lines)
client:  Oracle().call(harness, cell, inputs, timeout)
"""
import json
import os
import select
import signal
import subprocess
import sys
import time

VERIF = os.path.dirname(os.path.dirname(os.path.abspath(__file__)))
PY = os.environ.get("VERIF_ORACLE_PY", "/venv/bin/python")


class OracleTimeout(BaseException):
    pass


# ---------------------------------------------------------------------------- server side
def _serve():
    import importlib
    import io
    out = os.fdopen(os.dup(1), "w")
    devnull = io.StringIO()
    sys.stdout = devnull
    sys.setrecursionlimit(3000)
    try:
        import resource
        lim = 4 << 30            # a run that does not terminate must not eat the machine's memory
        resource.setrlimit(resource.RLIMIT_AS, (lim, lim))
    except (ImportError, ValueError, OSError):
        pass
    from symex import loader
    loader.install_pristine()
    from symex.core import ConcreteCtx, PathAbort, plain

    def alarm(signum, frame):
        signal.setitimer(signal.ITIMER_PROF, 0.2)
        raise OracleTimeout()
    signal.signal(signal.SIGPROF, alarm)      # CPU time of this process, not wall clock
    for line in sys.stdin:
        line = line.strip()
        if not line:
            continue
        req = json.loads(line)
        resp = {"status": "ok", "obs": None, "failed": [], "classes": []}
        try:
            mod = importlib.import_module("harness." + req["harness"])
            ctx = ConcreteCtx(req["inputs"])
            signal.setitimer(signal.ITIMER_PROF, req.get("timeout", 10))
            try:
                try:
                    r = mod.run(ctx, req["cell"])
                    resp["obs"] = plain(r)
                finally:
                    signal.setitimer(signal.ITIMER_PROF, 0)
            except PathAbort:
                resp["status"] = "abort"
            except OracleTimeout:
                resp["status"] = "timeout"
            resp["failed"] = [[l, plain(d)] for l, d in ctx.failed]
            resp["classes"] = sorted(ctx.classes)
        except OracleTimeout:
            resp["status"] = "timeout"
        except BaseException as e:  # noqa
            import traceback
            resp["status"] = "harness_exc"
            resp["exc"] = "%s: %s" % (type(e).__name__, e)
            resp["tb"] = traceback.format_exc()[-1500:]
        sys.stdout.seek(0)
        sys.stdout.truncate()
        try:
            s = json.dumps(resp)
        except (TypeError, ValueError) as e:
            s = json.dumps({"status": "harness_exc", "exc": "unserialisable: %s" % e, "failed": [],
                            "classes": [], "obs": None})
        out.write(s + "\n")
        out.flush()


# ---------------------------------------------------------------------------- client side
class Oracle:
    def __init__(self):
        self.p = None
        self.calls = 0
        self.seconds = 0.0

    def _start(self):
        env = dict(os.environ)
        env["PYTHONPATH"] = VERIF
        env.setdefault("PYTHONHASHSEED", "0")
        self.p = subprocess.Popen([PY, "-m", "symex.oracle"], stdin=subprocess.PIPE,
                                  stdout=subprocess.PIPE, stderr=subprocess.DEVNULL, cwd=VERIF,
                                  env=env, text=True, bufsize=1)

    def close(self):
        if self.p is not None:
            try:
                self.p.kill()
                self.p.wait()
            except Exception:
                pass
            self.p = None

    def call(self, harness, cell, inputs, timeout=10):
        r = self._call(harness, cell, inputs, timeout)
        if r["status"] == "timeout":
            # "does not return" is only believed when a second, much longer run does not return either
            # (a loaded machine must not turn a slow run into a non-termination verdict)
            r2 = self._call(harness, cell, inputs, max(30, 5 * timeout))
            if r2["status"] != "timeout":
                r2["slow"] = True
            return r2
        return r

    def _call(self, harness, cell, inputs, timeout=10):
        if self.p is None or self.p.poll() is not None:
            self._start()
        t0 = time.time()
        self.calls += 1
        req = json.dumps({"harness": harness, "cell": cell, "inputs": inputs, "timeout": timeout})
        try:
            self.p.stdin.write(req + "\n")
            self.p.stdin.flush()
        except BrokenPipeError:
            self.close()
            return {"status": "crash", "failed": [], "classes": [], "obs": None}
        r, _, _ = select.select([self.p.stdout], [], [], 6 * timeout + 30)     # wall clock backstop
        if not r:
            self.close()
            self.seconds += time.time() - t0
            return {"status": "timeout", "failed": [], "classes": [], "obs": None, "hard": True}
        line = self.p.stdout.readline()
        self.seconds += time.time() - t0
        if not line:
            self.close()
            return {"status": "crash", "failed": [], "classes": [], "obs": None}
        return json.loads(line)


if __name__ == "__main__":
    _serve()
