"""Proxy values carrying z3 terms.  Only imported in symbolic mode (needs z3)."""
import z3

from symex import core
from symex.core import Unsupported


def E():
    e = core.CUR
    if e is None:
        raise core.EngineError("proxy used outside an engine run")
    return e


# ------------------------------------------------------------------------------------------
def _atom_term(atom):
    v, op, c, neg = atom
    t = (v <= c) if op == "<=" else ((v >= c) if op == ">=" else (v == c))
    return z3.Not(t) if neg else t


class SymBool:
    """atom = (var, op, const, negated) is a pre-parsed single variable comparison; the z3
    term is then only built when the engine cannot fold it against the variable's bounds."""
    __slots__ = ("_t", "atom")

    def __init__(self, t, atom=None):
        self._t = t
        self.atom = atom

    @property
    def t(self):
        if self._t is None:
            self._t = _atom_term(self.atom)
        return self._t

    def __bool__(self):
        if self.atom is not None:
            return E().decide_atom(self)
        return E().decide(self._t)

    def __plain__(self):
        return bool(self)

    # bool is an int in Python: TRUE - FALSE etc.
    def _i(self):
        return SymInt(z3.If(self.t, z3.IntVal(1), z3.IntVal(0)))

    def __sub__(self, o): return self._i() - o
    def __rsub__(self, o): return o - self._i()
    def __add__(self, o): return self._i() + o
    def __radd__(self, o): return o + self._i()
    def __int__(self): return int(self._i())
    def __index__(self): return int(self._i())

    def __eq__(self, o):
        if isinstance(o, SymBool):
            return SymBool(self.t == o.t)
        if isinstance(o, bool):
            return SymBool(self.t if o else z3.Not(self.t))
        if isinstance(o, (int, SymInt)):
            return self._i() == o
        return False

    def __ne__(self, o):
        r = self.__eq__(o)
        return SymBool(z3.Not(r.t)) if isinstance(r, SymBool) else (not r)

    def __lt__(self, o): return self._i() < o
    def __le__(self, o): return self._i() <= o
    def __gt__(self, o): return self._i() > o
    def __ge__(self, o): return self._i() >= o

    def __hash__(self):
        return hash(bool(self))

    def __and__(self, o):
        return SymBool(z3.And(self.t, bterm(o)))

    def __or__(self, o):
        return SymBool(z3.Or(self.t, bterm(o)))

    def __invert__(self):
        return SymBool(z3.Not(self.t))

    __rand__ = __and__
    __ror__ = __or__

    def __repr__(self):
        return "TrueOrFalse" if core.CUR is None else repr(bool(self))


def bterm(x):
    if isinstance(x, SymBool):
        return x.t
    return z3.BoolVal(bool(x))


def s_not(x):
    return SymBool(z3.Not(x.t)) if isinstance(x, SymBool) else (not x)


def s_and(*xs):
    if any(isinstance(x, SymBool) for x in xs):
        return SymBool(z3.And([bterm(x) for x in xs]))
    return all(xs)


def s_or(*xs):
    if any(isinstance(x, SymBool) for x in xs):
        return SymBool(z3.Or([bterm(x) for x in xs]))
    return any(xs)


def s_ite(c, a, b):
    """value-level if-then-else on ints (no fork)"""
    if isinstance(c, SymBool):
        return SymInt(z3.If(c.t, iterm(a), iterm(b)))
    return a if c else b


# ------------------------------------------------------------------------------------------
def iterm(x):
    if isinstance(x, SymInt):
        return x.t
    if isinstance(x, SymBool):
        return z3.If(x.t, z3.IntVal(1), z3.IntVal(0))
    if isinstance(x, bool):
        return z3.IntVal(int(x))
    if isinstance(x, int):
        return z3.IntVal(x)
    return None


def _mk(t):
    t = z3.simplify(t)
    if z3.is_int_value(t):
        return t.as_long()
    return SymInt(t)


def _mkb(t):
    t = z3.simplify(t)
    if z3.is_true(t):
        return True
    if z3.is_false(t):
        return False
    return SymBool(t)


def _is_var(t):
    return z3.is_const(t) and t.decl().kind() == z3.Z3_OP_UNINTERPRETED


class SymInt:
    """unbounded mathematical integer (Python int semantics).

    Linear terms are kept in normal form lin = ({var_id: (var, coeff)}, const); arithmetic
    with constants / other linear terms and comparisons against constants then never build
    nested z3 terms, and comparisons that are decided by the known variable bounds (interval
    arithmetic) cost no solver query -- long concrete loops over symbolic counters stay cheap."""
    __slots__ = ("_t", "lin", "digits")

    def __init__(self, t, lin=None):
        self._t = t
        self.lin = lin
        self.digits = None    # (negative?, [digit SymInts, most significant first]) when the
                              # harness built this value from its decimal digits
        if lin is None and t is not None and _is_var(t):
            self.lin = ({t.get_id(): (t, 1)}, 0)

    @property
    def t(self):
        if self._t is None:
            terms, b = self.lin
            acc = None
            for v, a in terms.values():
                x = v if a == 1 else a * v
                acc = x if acc is None else acc + x
            if b != 0 or acc is None:
                acc = z3.IntVal(b) if acc is None else acc + b
            self._t = acc
        return self._t

    @staticmethod
    def _mklin(terms, b):
        terms = {k: va for k, va in terms.items() if va[1] != 0}
        if not terms:
            return b
        return SymInt(None, (terms, b))

    def _bin(self, o, f, op=None):
        if self.lin is not None and op is not None:
            terms, b = self.lin
            if type(o) is int:
                if op == "+":
                    return SymInt(None, (terms, b + o))
                if op == "-":
                    return SymInt(None, (terms, b - o))
                if op == "r-":
                    return SymInt(None, ({k: (v, -a) for k, (v, a) in terms.items()}, o - b))
                if op == "*":
                    if o == 1:
                        return self
                    if o == -1:
                        return -self
                    return self._mklin({k: (v, a * o) for k, (v, a) in terms.items()}, b * o)
            elif type(o) is SymInt and o.lin is not None and op != "*":
                ot, ob = o.lin
                sign = 1 if op == "+" else -1
                if op == "r-":
                    terms, b, ot, ob = ot, ob, terms, b
                nt = dict(terms)
                for k, (v, a) in ot.items():
                    if k in nt:
                        nt[k] = (v, nt[k][1] + sign * a)
                    else:
                        nt[k] = (v, sign * a)
                return self._mklin(nt, b + sign * ob)
        ot = iterm(o)
        if ot is None:
            if isinstance(o, float):
                return SymFloat.of_int(self)._binf(o, f)
            return NotImplemented
        return _mk(f(self.t, ot))

    def __add__(self, o): return self._bin(o, lambda a, b: a + b, "+")
    def __radd__(self, o): return self._bin(o, lambda a, b: b + a, "+")
    def __sub__(self, o): return self._bin(o, lambda a, b: a - b, "-")
    def __rsub__(self, o): return self._bin(o, lambda a, b: b - a, "r-")

    def __mul__(self, o):
        if isinstance(o, (str, list, tuple)) or type(o).__name__ in ("SymStr",):
            return o.__mul__(int(self)) if not isinstance(o, (str, list, tuple)) else o * int(self)
        return self._bin(o, lambda a, b: a * b, "*")

    def __rmul__(self, o):
        if isinstance(o, (str, list, tuple)):
            return o * int(self)
        return self._bin(o, lambda a, b: b * a, "*")

    def __neg__(self):
        if self.lin is not None:
            terms, b = self.lin
            r = SymInt(None, ({k: (v, -a) for k, (v, a) in terms.items()}, -b))
        else:
            r = _mk(-self.t)
        if self.digits is not None and isinstance(r, SymInt):
            neg, ds = self.digits
            # -0 renders as 0: only keep the annotation when the value cannot be zero
            if len(ds) > 1 or not (ds[0] == 0):
                r.digits = (not neg, ds)
        return r

    def __pos__(self): return self
    def __abs__(self): return _mk(z3.If(self.t >= 0, self.t, -self.t))

    # Python floor division / modulo on mathematical integers
    @staticmethod
    def _floordiv_t(a, b):
        # z3 div: a = b*q + r with 0 <= r < |b|
        return z3.If(b > 0, a / b, (-a) / (-b))

    @staticmethod
    def _mod_t(a, b):
        return z3.If(b > 0, a % b, -((-a) % (-b)))

    def _divlike(self, o, swap, f):
        ot = iterm(o)
        if ot is None:
            if isinstance(o, (float, SymFloat)):
                raise Unsupported("float // or % with a symbolic int")
            return NotImplemented
        a, b = (ot, self.t) if swap else (self.t, ot)
        e = E()
        if e.decide(z3.simplify(b == 0)):
            raise ZeroDivisionError("integer division or modulo by zero")
        # fork on the sign of the divisor: the solver then sees plain div / mod terms
        if e.decide(z3.simplify(b > 0)):
            return _mk(a / b if f is SymInt._floordiv_t else a % b)
        # negative divisor: name -a and -b so that the solver's own div/mod axioms (stated for the
        # pair it sees) apply directly
        e.naux += 1
        na, nb = z3.Int("aux_na_%d" % e.naux), z3.Int("aux_nb_%d" % e.naux)
        e.solver.add(na == -a, nb == -b, nb > 0)
        return _mk(na / nb if f is SymInt._floordiv_t else -(na % nb))

    def __floordiv__(self, o): return self._divlike(o, False, self._floordiv_t)
    def __rfloordiv__(self, o): return self._divlike(o, True, self._floordiv_t)
    def __mod__(self, o): return self._divlike(o, False, self._mod_t)
    def __rmod__(self, o): return self._divlike(o, True, self._mod_t)

    def __divmod__(self, o):
        return (self // o, self % o)

    def __rdivmod__(self, o):
        return (o // self, o % self)

    def __truediv__(self, o):
        if isinstance(o, (int, SymInt)):
            return SymFloat.ratio(self, o)
        if isinstance(o, float):
            return SymFloat.of_int(self) / o
        return NotImplemented

    def __rtruediv__(self, o):
        if isinstance(o, int):
            return SymFloat.ratio(o, self)
        if isinstance(o, float):
            return o / SymFloat.of_int(self)
        return NotImplemented

    def __pow__(self, o, mod=None):
        if mod is not None:
            raise Unsupported("3-arg pow")
        if isinstance(o, SymInt):
            o = int(o)
        if isinstance(o, int) and 0 <= o <= 64:
            r = z3.IntVal(1)
            for _ in range(o):
                r = r * self.t
            return _mk(r)
        if isinstance(o, int) and o < 0:
            raise Unsupported("negative exponent")
        raise Unsupported("pow exponent")

    def __rpow__(self, o):
        n = int(self)
        return o ** n

    _FLIP = {"<": ">", "<=": ">=", ">": "<", ">=": "<=", "==": "==", "!=": "!="}

    def _lin_cmp(self, op, c):
        """(sum a_i*v_i + b)  op  c"""
        terms, b = self.lin
        r = c - b
        if len(terms) == 1:
            (v, a), = terms.values()
            if a < 0:
                a, r, op = -a, -r, self._FLIP[op]
            if op == "<=":
                return SymBool(None, (v, "<=", r // a, False))
            if op == "<":
                return SymBool(None, (v, "<=", (r - 1) // a, False))
            if op == ">=":
                return SymBool(None, (v, ">=", -((-r) // a), False))
            if op == ">":
                return SymBool(None, (v, ">=", -((-(r + 1)) // a), False))
            if r % a != 0:
                return op == "!="
            return SymBool(None, (v, "==", r // a, op == "!="))
        # several variables: interval arithmetic over the engine's variable bounds
        e = E()
        lo = hi = 0
        for k, (v, a) in terms.items():
            vlo, vhi = e.bounds.get(k, (None, None))
            if a > 0:
                lo = None if (lo is None or vlo is None) else lo + a * vlo
                hi = None if (hi is None or vhi is None) else hi + a * vhi
            else:
                lo = None if (lo is None or vhi is None) else lo + a * vhi
                hi = None if (hi is None or vlo is None) else hi + a * vlo
        res = None
        if op in ("<=", "<"):
            k = r if op == "<=" else r - 1
            if hi is not None and hi <= k:
                res = True
            elif lo is not None and lo > k:
                res = False
        elif op in (">=", ">"):
            k = r if op == ">=" else r + 1
            if lo is not None and lo >= k:
                res = True
            elif hi is not None and hi < k:
                res = False
        else:
            if (lo is not None and r < lo) or (hi is not None and r > hi):
                res = (op == "!=")
        if res is not None:
            e.stats.folded += 1
            return res
        lhs = SymInt(None, (terms, 0)).t
        t = {"<=": lhs <= r, "<": lhs < r, ">=": lhs >= r, ">": lhs > r, "==": lhs == r,
             "!=": lhs != r}[op]
        return SymBool(t)

    def _cmp(self, o, f, op):
        if self.lin is not None:
            if type(o) is int:
                return self._lin_cmp(op, o)
            if type(o) is SymInt and o.lin is not None:
                d = self - o
                if type(d) is int:
                    return {"<": d < 0, "<=": d <= 0, ">": d > 0, ">=": d >= 0, "==": d == 0,
                            "!=": d != 0}[op]
                if d.lin is not None:
                    return d._lin_cmp(op, 0)
        ot = iterm(o)
        if ot is None:
            if isinstance(o, float):
                return SymFloat.of_int(self)._cmpf(o, f)
            return NotImplemented
        return _mkb(f(self.t, ot))

    def __lt__(self, o): return self._cmp(o, lambda a, b: a < b, "<")
    def __le__(self, o): return self._cmp(o, lambda a, b: a <= b, "<=")
    def __gt__(self, o): return self._cmp(o, lambda a, b: a > b, ">")
    def __ge__(self, o): return self._cmp(o, lambda a, b: a >= b, ">=")

    def __eq__(self, o):
        return self._cmp(o, lambda a, b: a == b, "==")

    def __ne__(self, o):
        return self._cmp(o, lambda a, b: a != b, "!=")

    def __bool__(self):
        return E().decide(z3.simplify(self.t != 0))

    def __index__(self):
        return E().concretise(self.t)

    __int__ = __index__

    def __trunc__(self): return self
    def __floor__(self): return self
    def __ceil__(self): return self
    def __round__(self, n=None): return self

    def __float__(self):
        return float(self.__index__())

    def __hash__(self):
        return hash(self.__index__())

    def __str__(self):
        return str(self.__index__())

    __repr__ = __str__

    def __format__(self, spec):
        return format(self.__index__(), spec)

    def __plain__(self):
        return self.__index__()

    # bit operations: only via concretisation (finite domains) -- SymWord handles real ones
    def __and__(self, o): return int(self) & int(o)
    def __or__(self, o): return int(self) | int(o)
    def __xor__(self, o): return int(self) ^ int(o)
    def __lshift__(self, o): return int(self) << int(o)
    def __rshift__(self, o): return int(self) >> int(o)
    def __rand__(self, o): return int(o) & int(self)
    def __ror__(self, o): return int(o) | int(self)
    def __rxor__(self, o): return int(o) ^ int(self)
    def __rlshift__(self, o): return int(o) << int(self)
    def __rrshift__(self, o): return int(o) >> int(self)
    def __invert__(self): return _mk(-self.t - 1)

    def bit_length(self):
        return int(self).bit_length()


# ------------------------------------------------------------------------------------------
class SymFloat:
    """A float known to hold an *integral* value iv (int or SymInt) with |iv| <= 2^53, where
    IEEE double arithmetic (+ - * between such values, with results in range) is exact.
    Anything else (fractions, division, out of range) raises Unsupported: the engine never
    mis-models rounding.  Real floating point lives in symex.fpkernel."""
    __slots__ = ("iv",)

    LIM = 2 ** 53

    def __init__(self, iv):
        self.iv = iv

    @staticmethod
    def _inrange(v):
        if isinstance(v, SymInt):
            if not (v <= SymFloat.LIM):
                return False
            if not (v >= -SymFloat.LIM):
                return False
            return True
        return -SymFloat.LIM <= v <= SymFloat.LIM

    @classmethod
    def of_int(cls, i):
        if isinstance(i, SymBool):
            i = i._i()
        if not cls._inrange(i):
            raise Unsupported("int -> float beyond 2^53")
        return cls(i)

    @classmethod
    def ratio(cls, a, b):
        if b == 0:
            raise ZeroDivisionError("division by zero")
        from symex import fpkernel
        return fpkernel.int_truediv(a, b)

    def _int_t(self):
        return iterm(self.iv)

    @property
    def r(self):
        return z3.ToReal(iterm(self.iv))

    @staticmethod
    def _other(o):
        if isinstance(o, SymFloat):
            return o.iv
        if isinstance(o, float):
            if o != o or o in (float("inf"), float("-inf")) or o != int(o) \
                    or abs(o) > SymFloat.LIM:
                raise Unsupported("non-integral float constant in symbolic arithmetic")
            return int(o)
        if isinstance(o, SymBool):
            return o._i()
        if isinstance(o, (int, SymInt)):
            if not SymFloat._inrange(o):
                raise Unsupported("int -> float beyond 2^53")
            return o
        return None

    def _binf(self, o, f):
        ov = self._other(o)
        if ov is None:
            return NotImplemented
        rv = f(self.iv, ov)
        if not self._inrange(rv):
            raise Unsupported("float result beyond 2^53")
        return SymFloat(rv)

    def __add__(self, o): return self._binf(o, lambda a, b: a + b)
    def __radd__(self, o): return self._binf(o, lambda a, b: b + a)
    def __sub__(self, o): return self._binf(o, lambda a, b: a - b)
    def __rsub__(self, o): return self._binf(o, lambda a, b: b - a)
    def __mul__(self, o): return self._binf(o, lambda a, b: a * b)
    def __rmul__(self, o): return self._binf(o, lambda a, b: b * a)

    def __truediv__(self, o):
        raise Unsupported("symbolic float division")

    def __rtruediv__(self, o):
        raise Unsupported("symbolic float division")

    def __neg__(self):
        return SymFloat(-self.iv)

    def __abs__(self):
        return SymFloat(abs(self.iv))

    def _cmpf(self, o, f):
        if isinstance(o, float) and o == o and o not in (float("inf"), float("-inf")) \
                and o != int(o):
            # integral value against a fractional constant: exact comparison over reals
            num, den = o.as_integer_ratio()
            return _mkb(f(self.r, z3.RealVal(num) / z3.RealVal(den)))
        if isinstance(o, float) and (o != o or o in (float("inf"), float("-inf"))):
            raise Unsupported("non finite float compare")
        if isinstance(o, float):
            ov = int(o)
        elif isinstance(o, SymFloat):
            ov = o.iv
        elif isinstance(o, (int, SymInt, SymBool)):
            ov = o                       # Python compares int with float exactly
        else:
            return NotImplemented
        return f(self.iv, ov)

    def __lt__(self, o): return self._cmpf(o, lambda a, b: a < b)
    def __le__(self, o): return self._cmpf(o, lambda a, b: a <= b)
    def __gt__(self, o): return self._cmpf(o, lambda a, b: a > b)
    def __ge__(self, o): return self._cmpf(o, lambda a, b: a >= b)

    def __eq__(self, o):
        return self._cmpf(o, lambda a, b: a == b)

    def __ne__(self, o):
        return self._cmpf(o, lambda a, b: a != b)

    def __bool__(self):
        return bool(self.iv != 0)

    def __trunc__(self):
        return self.iv

    __int__ = __trunc__
    __floor__ = __trunc__
    __ceil__ = __trunc__

    def __round__(self, n=None):
        if n is None:
            return self.iv
        return self

    def is_integer(self):
        return True

    def _conc(self):
        return float(int(self.iv))

    def __float__(self): return self._conc()
    def __hash__(self): return hash(self._conc())
    def __str__(self): return repr(self._conc())
    __repr__ = __str__
    def __format__(self, spec): return format(self._conc(), spec)
    def __plain__(self): return self._conc()


# ------------------------------------------------------------------------------------------
def cterm(c):
    if isinstance(c, SymChar):
        return c.t
    return z3.IntVal(ord(c))


class SymChar:
    """one character with a symbolic code point.  Behaves like a str of length 1."""
    __slots__ = ("t",)

    def __init__(self, t):
        self.t = t

    def s(self):
        return SymStr([self])

    def __len__(self): return 1
    def __iter__(self): return iter([self])
    def __getitem__(self, i): return self.s()[i]
    def __eq__(self, o): return self.s() == o
    def __ne__(self, o): return self.s() != o
    def __lt__(self, o): return self.s() < o
    def __le__(self, o): return self.s() <= o
    def __gt__(self, o): return self.s() > o
    def __ge__(self, o): return self.s() >= o
    def __add__(self, o): return self.s() + o
    def __radd__(self, o): return o + self.s() if not isinstance(o, str) else SymStr(list(o) + [self])
    def __mul__(self, n): return self.s() * n
    def __hash__(self): return hash(str(self))
    def __str__(self): return chr(E().concretise(self.t))
    __repr__ = __str__
    def __format__(self, spec): return format(str(self), spec)
    def __bool__(self): return True
    def __plain__(self): return str(self)
    def __contains__(self, o): return o in self.s()

    def __getattr__(self, name):
        return getattr(self.s(), name)


_CLASS_RANGES = {}


def char_class_ranges(name):
    """[(lo, hi)] of the code points c with getattr(chr(c), name)()"""
    r = _CLASS_RANGES.get(name)
    if r is None:
        r, start, f = [], None, getattr(str, name)
        for cp in range(0x110000):
            if f(chr(cp)):
                if start is None:
                    start = cp
            elif start is not None:
                r.append((start, cp - 1))
                start = None
        if start is not None:
            r.append((start, 0x10FFFF))
        _CLASS_RANGES[name] = r
    return r


def _els(o):
    if isinstance(o, SymStr):
        return o.els
    if isinstance(o, SymChar):
        return [o]
    if isinstance(o, str):
        return list(o)
    return None


def el_eq(a, b):
    if isinstance(a, str) and isinstance(b, str):
        return z3.BoolVal(a == b)
    return cterm(a) == cterm(b)


ASCII_WS = " \t\n\r\x0b\x0c\x1c\x1d\x1e\x1f"


class SymStr:
    """string of concrete length; elements are 1-char strs or SymChars."""
    __slots__ = ("els",)

    def __init__(self, els):
        self.els = list(els)

    @staticmethod
    def mk(els):
        els = list(els)
        if all(isinstance(e, str) for e in els):
            return "".join(els)
        return SymStr(els)

    def __len__(self): return len(self.els)
    def __iter__(self): return iter(self.els)
    def __bool__(self): return len(self.els) > 0

    def __getitem__(self, i):
        if isinstance(i, slice):
            if any(isinstance(x, SymInt) for x in (i.start, i.stop, i.step)):
                i = slice(*(int(x) if isinstance(x, SymInt) else x for x in (i.start, i.stop, i.step)))
            return SymStr.mk(self.els[i])
        if isinstance(i, SymInt):
            i = int(i)
        return self.els[i]

    def __add__(self, o):
        oe = _els(o)
        if oe is None:
            return NotImplemented
        return SymStr.mk(self.els + oe)

    def __radd__(self, o):
        oe = _els(o)
        if oe is None:
            return NotImplemented
        return SymStr.mk(oe + self.els)

    def __mul__(self, n):
        return SymStr.mk(self.els * int(n))

    __rmul__ = __mul__

    def eqterm(self, o):
        oe = _els(o)
        if oe is None or len(oe) != len(self.els):
            return z3.BoolVal(False)
        if not oe:
            return z3.BoolVal(True)
        return z3.And([el_eq(a, b) for a, b in zip(self.els, oe)])

    def __eq__(self, o):
        if _els(o) is None:
            return False
        return _mkb(self.eqterm(o))

    def __ne__(self, o):
        if _els(o) is None:
            return True
        return _mkb(z3.Not(self.eqterm(o)))

    def ltterm(self, o, strict=True):
        """code point lexicographic order as a z3 term"""
        a, b = self.els, _els(o)
        n = min(len(a), len(b))
        # build from the end
        res = z3.BoolVal(len(a) < len(b) if strict else len(a) <= len(b))
        for i in range(n - 1, -1, -1):
            x, y = cterm(a[i]), cterm(b[i])
            res = z3.If(x == y, res, x < y)
        return res

    def _lt(self, o, strict, swap):
        oe = _els(o)
        if oe is None:
            return NotImplemented
        if swap:
            return _mkb(SymStr(oe).ltterm(self, strict))
        return _mkb(self.ltterm(o, strict))

    def __lt__(self, o): return self._lt(o, True, False)
    def __le__(self, o): return self._lt(o, False, False)
    def __gt__(self, o): return self._lt(o, True, True)
    def __ge__(self, o): return self._lt(o, False, True)

    def __contains__(self, o):
        return self.find(o) >= 0

    def startswith(self, p, start=0):
        pe = _els(p)
        if isinstance(p, tuple):
            return any(self.startswith(x) for x in p)
        if len(pe) + start > len(self.els):
            return False
        return SymStr(self.els[start:start + len(pe)]) == p

    def endswith(self, p):
        if isinstance(p, tuple):
            return any(self.endswith(x) for x in p)
        pe = _els(p)
        if len(pe) > len(self.els):
            return False
        return SymStr(self.els[len(self.els) - len(pe):]) == p

    def _norm(self, start, end):
        n = len(self.els)
        if start is None:
            start = 0
        if end is None:
            end = n
        start, end = int(start), int(end)
        if start < 0:
            start = max(0, n + start)
        if end < 0:
            end = max(0, n + end)
        return start, min(end, n)

    def find(self, p, start=None, end=None):
        pe = _els(p)
        start, end = self._norm(start, end)
        if start > end:
            return -1
        for i in range(start, end - len(pe) + 1):
            if SymStr(self.els[i:i + len(pe)]) == p:  # forks
                return i
        return -1

    def rfind(self, p, start=None, end=None):
        pe = _els(p)
        start, end = self._norm(start, end)
        if start > end:
            return -1
        for i in range(end - len(pe), start - 1, -1):
            if SymStr(self.els[i:i + len(pe)]) == p:
                return i
        return -1

    def index(self, p, *a):
        r = self.find(p, *a)
        if r < 0:
            raise ValueError("substring not found")
        return r

    def count(self, p):
        pe = _els(p)
        if not pe:
            return len(self.els) + 1
        i = 0
        c = 0
        while i + len(pe) <= len(self.els):
            if SymStr(self.els[i:i + len(pe)]) == p:
                c += 1
                i += len(pe)
            else:
                i += 1
        return c

    def replace(self, a, b, count=-1):
        ae, be = _els(a), _els(b)
        out = []
        if not ae:
            # python: insert b between every char and at both ends
            for e in self.els:
                out.extend(be)
                out.append(e)
            out.extend(be)
            return SymStr.mk(out)
        i = 0
        n = len(self.els)
        while i < n:
            if i + len(ae) <= n and count != 0 and SymStr(self.els[i:i + len(ae)]) == a:
                out.extend(be)
                i += len(ae)
                count -= 1
            else:
                out.append(self.els[i])
                i += 1
        return SymStr.mk(out)

    def _is_ws(self, c):
        if isinstance(c, str):
            return c.isspace()
        t = c.t
        # python str.isspace for the full unicode range
        ws = [9, 10, 11, 12, 13, 28, 29, 30, 31, 32, 133, 160, 5760, 8232, 8233, 8239, 8287, 12288]
        return bool(_mkb(z3.Or([t == w for w in ws] + [z3.And(t >= 8192, t <= 8202)])))

    def strip(self, chars=None):
        return self.lstrip(chars).rstrip(chars) if True else None

    def lstrip(self, chars=None):
        els = self.els
        i = 0
        while i < len(els) and self._strip_hit(els[i], chars):
            i += 1
        return SymStr.mk(els[i:])

    def rstrip(self, chars=None):
        if isinstance(self, str):
            return self
        els = self.els
        j = len(els)
        while j > 0 and self._strip_hit(els[j - 1], chars):
            j -= 1
        return SymStr.mk(els[:j])

    def _strip_hit(self, c, chars):
        if chars is None:
            return self._is_ws(c)
        from symex.shims import sym_in
        return sym_in(c, chars)

    def split(self, sep=None, maxsplit=-1):
        if sep is None:
            raise Unsupported("split on whitespace of symbolic string")
        se = _els(sep)
        out = []
        cur = []
        i = 0
        n = len(self.els)
        while i < n:
            if i + len(se) <= n and maxsplit != 0 and SymStr(self.els[i:i + len(se)]) == sep:
                out.append(SymStr.mk(cur))
                cur = []
                i += len(se)
                maxsplit -= 1
            else:
                cur.append(self.els[i])
                i += 1
        out.append(SymStr.mk(cur))
        return out

    def join(self, items):
        from symex.shims import sym_join
        return sym_join(self, items)

    def _map_case(self, up):
        out = []
        for c in self.els:
            if isinstance(c, str):
                out.extend(list(c.upper() if up else c.lower()))
                continue
            t = c.t
            e = E()
            if e.decide(z3.simplify(t < 128)):
                if up:
                    out.append(SymChar(z3.If(z3.And(t >= 97, t <= 122), t - 32, t)))
                else:
                    out.append(SymChar(z3.If(z3.And(t >= 65, t <= 90), t + 32, t)))
            else:
                # non ASCII: case mapping tables are host data; explore by finite concretisation
                s = str(c)  # Unsupported when more than 256 values are feasible
                if s == "\u03a3" and not up:
                    # final sigma: the only context sensitive mapping of str.lower()
                    w = self.conc()
                    return w.lower()
                out.extend(list(s.upper() if up else s.lower()))
        return SymStr.mk(out)

    def upper(self): return self._map_case(True)
    def lower(self): return self._map_case(False)

    def _char_class(self, name):
        """str.isdigit & co on symbolic characters: membership of the code point in the ranges of the class
        (computed from this interpreter's Unicode tables, cached); a fork per symbolic character"""
        if not self.els:
            return False
        for c in self.els:
            if isinstance(c, str):
                if not getattr(c, name)():
                    return False
            else:
                rs = char_class_ranges(name)
                cond = z3.Or([(c.t == a) if a == b else z3.And(c.t >= a, c.t <= b) for a, b in rs])
                if not bool(_mkb(cond)):
                    return False
        return True

    def isdigit(self): return self._char_class("isdigit")
    def isdecimal(self): return self._char_class("isdecimal")
    def isnumeric(self): return self._char_class("isnumeric")
    def isalpha(self): return self._char_class("isalpha")
    def isalnum(self): return self._char_class("isalnum")

    def conc(self):
        return "".join(e if isinstance(e, str) else str(e) for e in self.els)

    def encode(self, *a, **k): return self.conc().encode(*a, **k)
    def __str__(self): return self.conc()
    def __repr__(self): return repr(self.conc())
    def __hash__(self): return hash(self.conc())
    def __format__(self, spec): return format(self.conc(), spec)
    def __plain__(self): return self.conc()

    def __getattr__(self, name):
        # anything else: concretise (finite) and delegate
        if name.startswith("__"):
            raise AttributeError(name)
        return getattr(self.conc(), name)


class SymNumeral(SymStr):
    """the canonical decimal numeral of the SymInt src (built by str(int)).  int() of it gives
    src back without re-deriving the value from the digits (CPython: int(str(n)) == n)."""
    __slots__ = ("src",)

    def __init__(self, els, src):
        SymStr.__init__(self, els)
        self.src = src


# ------------------------------------------------------------------------------------------
class SymEnum:
    """one of finitely many concrete strings, selected by a symbolic index."""
    __slots__ = ("k", "opts")

    def __init__(self, k, opts):
        self.k = k
        self.opts = opts

    def _match(self, pred):
        ms = [i for i, o in enumerate(self.opts) if pred(o)]
        if not ms:
            return z3.BoolVal(False)
        if len(ms) == len(self.opts):
            return z3.BoolVal(True)
        return z3.Or([self.k == i for i in ms])

    _EQ_CACHE = {}

    def _eq_str(self, o):
        key = (id(self.opts), o)
        ms = self._EQ_CACHE.get(key)
        if ms is None:
            ms = tuple(i for i, x in enumerate(self.opts) if x == o)
            self._EQ_CACHE[key] = ms
            self._EQ_CACHE[("keep", id(self.opts))] = self.opts   # keep id() stable
        if not ms:
            return False
        if len(ms) == len(self.opts):
            return True
        if len(ms) == 1:
            return SymBool(None, (self.k, "==", ms[0], False))
        return SymBool(z3.Or([self.k == i for i in ms]))

    def __eq__(self, o):
        if isinstance(o, str):
            return self._eq_str(o)
        if isinstance(o, SymEnum):
            return self.conc() == o.conc()
        if isinstance(o, (SymStr, SymChar)):
            return self.conc() == o
        return False

    def __ne__(self, o):
        return s_not(self.__eq__(o))

    def startswith(self, p, *a):
        return bool(_mkb(self._match(lambda s: s.startswith(p, *a))))

    def endswith(self, p, *a):
        return bool(_mkb(self._match(lambda s: s.endswith(p, *a))))

    def __contains__(self, p):
        if isinstance(p, str):
            return bool(_mkb(self._match(lambda s: p in s)))
        return p in self.conc()

    def isin(self, container):
        """self in <list/tuple/set/dict of str>"""
        if all(isinstance(c, str) for c in container):
            return _mkb(self._match(lambda s: s in container))
        return self.conc() in container

    def conc(self):
        e = E()
        if e.eval_model is not None:
            return self.opts[e.eval_model.eval(self.k, model_completion=True).as_long()]
        return self.opts[e.concretise(self.k, limit=len(self.opts) + 1)]

    # pointwise string functions keep the value symbolic (no fork): error messages etc.
    _MAP_CACHE = {}

    def _map(self, fn, key):
        ck = (id(self.opts), key)
        hit = self._MAP_CACHE.get(ck)
        if hit is None:
            hit = (self.opts, [fn(o) for o in self.opts])
            self._MAP_CACHE[ck] = hit
        return SymEnum(self.k, hit[1])

    def _zip(self, other, fn, key):
        ck = (id(self.opts), id(other.opts), key)
        hit = self._MAP_CACHE.get(ck)
        if hit is None:
            hit = (self.opts, other.opts, [fn(a, b) for a, b in zip(self.opts, other.opts)])
            self._MAP_CACHE[ck] = hit
        return SymEnum(self.k, hit[2])

    def replace(self, a, b, *r):
        if isinstance(a, str) and isinstance(b, str) and not r:
            return self._map(lambda s: s.replace(a, b), ("replace", a, b))
        return self.conc().replace(a, b, *r)

    def upper(self): return self._map(lambda s: s.upper(), "upper")
    def lower(self): return self._map(lambda s: s.lower(), "lower")
    def strip(self, *a): return self._map(lambda s: s.strip(*a), ("strip",) + a)

    def __bool__(self):
        return bool(_mkb(self._match(lambda s: bool(s))))

    def __len__(self): return len(self.conc())
    def __iter__(self): return iter(self.conc())
    def __hash__(self): return hash(self.conc())
    def __str__(self): return self.conc()
    def __repr__(self): return repr(self.conc())
    def __format__(self, f): return format(self.conc(), f)
    def __getitem__(self, k): return self.conc()[k]
    def __add__(self, o):
        if isinstance(o, str):
            return self._map(lambda s: s + o, ("add", o))
        if isinstance(o, SymEnum) and o.k.eq(self.k):
            return self._zip(o, lambda a, b: a + b, "add")
        return self.conc() + o

    def __radd__(self, o):
        if isinstance(o, str):
            return self._map(lambda s: o + s, ("radd", o))
        return o + self.conc()

    def __lt__(self, o): return self.conc() < (o.conc() if isinstance(o, SymEnum) else o)
    def __gt__(self, o): return self.conc() > (o.conc() if isinstance(o, SymEnum) else o)
    def __le__(self, o): return self.conc() <= (o.conc() if isinstance(o, SymEnum) else o)
    def __ge__(self, o): return self.conc() >= (o.conc() if isinstance(o, SymEnum) else o)
    def __plain__(self): return self.conc()

    def __getattr__(self, name):
        if name.startswith("__"):
            raise AttributeError(name)
        return getattr(self.conc(), name)


class SymWord:
    """integer carried as a 128-bit two's complement bit-vector (native z3 BV reasoning for the
    bitwise built-ins).  Every arithmetic result is assumed to fit: the harness keeps inputs
    below 2^32 and shift counts <= 64, so 128 bits never overflow."""
    __slots__ = ("t",)
    W = 128

    def __init__(self, t):
        self.t = t

    @classmethod
    def _c(cls, o):
        if isinstance(o, SymWord):
            return o.t
        if isinstance(o, bool):
            return z3.BitVecVal(int(o), cls.W)
        if isinstance(o, int):
            if not -(2 ** 100) < o < 2 ** 100:
                raise Unsupported("constant too wide for SymWord")
            return z3.BitVecVal(o, cls.W)
        return None

    def _bin(self, o, f):
        ot = self._c(o)
        if ot is None:
            return NotImplemented
        return SymWord(z3.simplify(f(self.t, ot)))

    def __and__(self, o): return self._bin(o, lambda a, b: a & b)
    def __or__(self, o): return self._bin(o, lambda a, b: a | b)
    def __xor__(self, o): return self._bin(o, lambda a, b: a ^ b)
    def __add__(self, o): return self._bin(o, lambda a, b: a + b)
    def __sub__(self, o): return self._bin(o, lambda a, b: a - b)
    def __rsub__(self, o): return self._bin(o, lambda a, b: b - a)
    __rand__ = __and__
    __ror__ = __or__
    __rxor__ = __xor__
    __radd__ = __add__

    def __invert__(self): return SymWord(z3.simplify(~self.t))
    def __neg__(self): return SymWord(z3.simplify(-self.t))

    def _shift(self, n, left):
        if isinstance(n, (SymInt, SymWord)):
            n = int(n)
        if n < 0:
            raise ValueError("negative shift count")
        if n > 64:
            raise Unsupported("shift count above 64 in SymWord")
        if left:
            return SymWord(z3.simplify(self.t << n))
        return SymWord(z3.simplify(self.t >> n))      # arithmetic shift, like Python ints

    def __lshift__(self, n): return self._shift(n, True)
    def __rshift__(self, n): return self._shift(n, False)

    def __mod__(self, o):
        if isinstance(o, int) and o > 0 and (o & (o - 1)) == 0:
            return self & (o - 1)            # Python % by a power of two == low bits (floor mod)
        raise Unsupported("SymWord % non power of two")

    def _cmp(self, o, f):
        ot = self._c(o)
        if ot is None:
            return NotImplemented
        return _mkb(f(self.t, ot))

    def __lt__(self, o): return self._cmp(o, lambda a, b: a < b)
    def __le__(self, o): return self._cmp(o, lambda a, b: a <= b)
    def __gt__(self, o): return self._cmp(o, lambda a, b: a > b)
    def __ge__(self, o): return self._cmp(o, lambda a, b: a >= b)
    def __eq__(self, o): return self._cmp(o, lambda a, b: a == b)
    def __ne__(self, o): return self._cmp(o, lambda a, b: a != b)

    def __bool__(self):
        return E().decide(z3.simplify(self.t != 0))

    def __index__(self):
        e = E()
        if e.eval_model is not None:
            return e.eval_model.eval(self.t, model_completion=True).as_signed_long()
        return e.concretise(z3.BV2Int(self.t, True))

    __int__ = __index__
    def __hash__(self): return hash(self.__index__())
    def __str__(self): return str(self.__index__())
    __repr__ = __str__
    def __format__(self, spec): return format(self.__index__(), spec)
    def __plain__(self): return self.__index__()


SYM_TYPES = (SymBool, SymInt, SymFloat, SymChar, SymStr, SymEnum, SymWord)
STRLIKE = (SymChar, SymStr, SymEnum)


def is_sym(x):
    return isinstance(x, SYM_TYPES)
