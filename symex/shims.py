"""Call-site shims injected into the transformed ckl modules.

Every shim delegates to the real builtin when no proxy is among its arguments, so concrete
behaviour is unchanged (translation validation: the repo's 854 tests pass through them).
Importable without z3 (pristine oracle process): proxies are only imported when present.
"""
import builtins
import datetime as _datetime
import math as _math
import re as _re
import sys

_px = None


def px():
    global _px
    if _px is None:
        if "z3" not in sys.modules and "symex.proxies" not in sys.modules:
            return None
        import symex.proxies as m
        _px = m
    return _px


def is_sym(x):
    p = px()
    return p is not None and isinstance(x, p.SYM_TYPES)


def any_sym(*xs):
    p = px()
    if p is None:
        return False
    T = p.SYM_TYPES
    for x in xs:
        if isinstance(x, T):
            return True
    return False


# ---- `a in b` -----------------------------------------------------------------------------
def sym_in(x, c):
    p = px()
    if p is None:
        return x in c
    if isinstance(x, p.SymEnum):
        if isinstance(c, str):
            return bool(p._mkb(x._match(lambda s: s in c)))
        if isinstance(c, (list, tuple, set, frozenset, dict)) and not isinstance(c, dict):
            if all(isinstance(i, str) for i in c):
                return bool(x.isin(c))
        if isinstance(c, dict):
            return x.conc() in c
        return x.conc() in c
    if isinstance(x, (p.SymChar, p.SymStr)):
        if isinstance(c, (str, p.SymStr, p.SymChar)):
            if isinstance(c, str) and isinstance(x, p.SymChar):
                import z3
                if not c:
                    return False
                return bool(p._mkb(z3.Or([x.t == ord(ch) for ch in c])))
            cs = c if not isinstance(c, str) else p.SymStr(list(c))
            if isinstance(cs, p.SymChar):
                cs = cs.s()
            return cs.find(x) >= 0
        if isinstance(c, (list, tuple)):
            import z3
            xs = x if isinstance(x, p.SymStr) else x.s()
            terms = []
            for item in c:
                if isinstance(item, (str, p.SymStr, p.SymChar)):
                    terms.append(xs.eqterm(item))
                elif isinstance(item, p.SymEnum):
                    terms.append(xs.eqterm(item.conc()))
            if not terms:
                return False
            return bool(p._mkb(z3.Or(terms)))
        return x.conc() in c if isinstance(x, p.SymStr) else str(x) in c
    if isinstance(c, (p.SymStr, p.SymChar)):
        cs = c if isinstance(c, p.SymStr) else c.s()
        return cs.find(x) >= 0
    if isinstance(c, p.SymEnum):
        return x in c
    return x in c


# ---- builtins -----------------------------------------------------------------------------
_HEX = "0123456789abcdefABCDEF"


def _digit_val_term(ch, base):
    """(valid?, value) z3 terms for one symbolic character as a digit in base (ASCII only)."""
    import z3
    t = ch.t
    if base <= 10:
        ok = z3.And(t >= 48, t < 48 + base)
        return ok, t - 48
    ok = z3.Or(z3.And(t >= 48, t <= 57), z3.And(t >= 97, t < 97 + base - 10),
               z3.And(t >= 65, t < 65 + base - 10))
    val = z3.If(t <= 57, t - 48, z3.If(t >= 97, t - 87, t - 55))
    return ok, val


def sym_int(x=0, base=None):
    p = px()
    if p is None or not is_sym(x):
        if base is None:
            return builtins.int(x)
        return builtins.int(x, base)
    if isinstance(x, (p.SymInt, p.SymWord)):
        return x
    if isinstance(x, p.SymBool):
        return x._i()
    if isinstance(x, p.SymFloat):
        return x.__trunc__()
    if isinstance(x, p.SymEnum):
        return builtins.int(x.conc()) if base is None else builtins.int(x.conc(), base)
    if isinstance(x, p.SymChar):
        x = x.s()
    if isinstance(x, p.SymNumeral) and base in (None, 10):
        return x.src
    # SymStr
    import z3
    from symex import core
    b = 10 if base is None else base
    els = x.els
    e = core.CUR
    # sign and plain digits handled symbolically; everything else (whitespace, underscores,
    # non ASCII digits, prefixes) goes through the host int() on a finite concretisation
    oks = []
    val = 0
    digs = []
    plain = len(els) > 0
    for c in els:
        if isinstance(c, str):
            if c in _HEX and builtins.int(c, 16) < b:
                d = builtins.int(c, 16)
            else:
                plain = False
                break
        else:
            ok, v = _digit_val_term(c, b)
            oks.append(ok)
            d = p._mk(v)
        digs.append(d)
        val = val * b + d
    if plain:
        cond = z3.And(oks) if oks else z3.BoolVal(True)
        if e.decide(z3.simplify(cond)):
            if b == 10 and isinstance(val, p.SymInt) and (len(digs) == 1 or not (digs[0] == 0)):
                val.digits = (False, digs)      # canonical numeral: str() gives the digits back
            return val
    # not a plain digit string: every symbolic character is either one of the ASCII characters int() can
    # accept (digits / letters / sign / underscore / ASCII white space: enumerated) or any other character,
    # for which int() raises ValueError whatever it is (non-ASCII digits and spaces are assumed away)
    chars = []
    other = False
    for c in els:
        if isinstance(c, str):
            chars.append(c)
            continue
        rel = z3.Or([c.t == ord(ch) for ch in _INT_ASCII])
        if e.decide(rel):
            chars.append(chr(e.concretise(c.t, limit=len(_INT_ASCII) + 1)))
        else:
            e.assume(z3.Or(c.t < 128, z3.And(c.t >= 0xE000, c.t <= 0xF8FF)))
            other = True
            chars.append(c)
    if other:
        raise builtins.ValueError(p.SymStr(list("invalid literal for int() with base %d: '" % b) + chars + ["'"]))
    s = "".join(chars)
    return builtins.int(s) if base is None else builtins.int(s, base)


_INT_ASCII = "0123456789abcdefghijklmnopqrstuvwxyzABCDEFGHIJKLMNOPQRSTUVWXYZ+-_ \t\n\r\x0b\x0c"


def sym_float(x=0.0):
    p = px()
    if p is None or not is_sym(x):
        return builtins.float(x)
    if isinstance(x, p.SymFloat):
        return x
    if isinstance(x, (p.SymInt, p.SymBool)):
        return p.SymFloat.of_int(x)
    els = p._els(x)
    if els is None or all(isinstance(c, builtins.str) for c in els):
        return builtins.float(str(x))
    # a string with symbolic characters: each is one of the ASCII characters float() can accept (enumerated),
    # a non-ASCII decimal digit (float() reads it as its digit value: one fork per value), or any other
    # character, for which float() raises ValueError whatever it is
    import z3
    from symex import core
    e = core.CUR
    chars, other = [], False
    for c in els:
        if isinstance(c, builtins.str):
            chars.append(c)
            continue
        if e.decide(z3.Or([c.t == ord(ch) for ch in _FLOAT_ASCII])):
            chars.append(chr(e.concretise(c.t, limit=len(_FLOAT_ASCII) + 1)))
            continue
        blocks = [a for a, b in p.char_class_ranges("isdecimal") for a in range(a, b + 1, 10) if a > 127]
        if e.decide(z3.Or([z3.And(c.t >= a, c.t <= a + 9) for a in blocks])):
            for d in range(9):
                if e.decide(z3.Or([c.t == a + d for a in blocks])):
                    chars.append(builtins.str(d))
                    break
            else:
                chars.append("9")
            continue
        # white space other than ASCII is stripped by float() at the ends only: assumed away (outside the claim)
        e.assume(z3.Not(z3.Or([c.t == w for w in (0x1c, 0x1d, 0x1e, 0x1f, 0x85, 0xa0, 0x1680, 0x2028, 0x2029, 0x202f,
                                                  0x205f, 0x3000)] + [z3.And(c.t >= 0x2000, c.t <= 0x200a)])))
        other = True
        chars.append(c)
    if other:
        raise builtins.ValueError(p.SymStr(list("could not convert string to float: '") + chars + ["'"]))
    return builtins.float("".join(chars))


_FLOAT_ASCII = "0123456789+-._eEinfatyINFATY \t\n\r\x0b\x0c"


def sym_str(x=""):
    p = px()
    if isinstance(x, builtins.str):
        return x
    if p is not None:
        if isinstance(x, p.STRLIKE):
            return x
        if isinstance(x, p.SymInt):
            return int_to_str(x)
        if isinstance(x, p.SYM_TYPES):
            return builtins.str(x)
    t = type(x)
    if isinstance(x, BaseException) and t.__module__ == "builtins" and px() is not None:
        # str(exc) renders its arguments at C level, which cannot return proxies
        if isinstance(x, KeyError) and len(x.args) == 1:
            return sym_repr(x.args[0])
        if len(x.args) == 1:
            return sym_str(x.args[0])
        if len(x.args) == 0:
            return ""
    if t.__module__ != "builtins" and px() is not None:
        # user classes: call __str__/__repr__ directly so that a proxy result is accepted
        if t.__str__ is not object.__str__ and t.__str__ is not BaseException.__str__:
            return t.__str__(x)
        if t.__str__ is object.__str__ and t.__repr__ is not object.__repr__:
            return t.__repr__(x)
    return builtins.str(x)


def int_to_str(x):
    """decimal numeral of a SymInt: forks on sign and digit count, digits stay symbolic."""
    p = px()
    import z3
    from symex import core
    e = core.CUR
    if e.eval_model is not None:
        return builtins.str(builtins.int(x))
    if x.digits is not None:
        neg, ds = x.digits
        els = ["-"] if neg else []
        for d in ds:
            els.append(builtins.chr(48 + d) if isinstance(d, builtins.int) else p.SymChar((d + 48).t))
        return p.SymNumeral(els, x)
    t = x.t
    neg = e.decide(z3.simplify(t < 0))
    a = -t if neg else t
    # number of digits: fork (bounded: give up above 40 digits)
    nd = 1
    lim = 10
    while not e.decide(z3.simplify(a < lim)):
        nd += 1
        lim *= 10
        if nd > 40:
            raise p.Unsupported("numeral longer than 40 digits")
    els = []
    for i in range(nd - 1, -1, -1):
        d = z3.simplify((a / (10 ** i)) % 10)
        if z3.is_int_value(d):
            els.append(chr(48 + d.as_long()))
        else:
            els.append(p.SymChar(d + 48))
    if neg:
        els.insert(0, "-")
    return p.SymNumeral(els, x)


def sym_repr(x):
    p = px()
    if p is not None and isinstance(x, p.SYM_TYPES):
        if isinstance(x, p.SymInt):
            return int_to_str(x)
        return builtins.repr(x)
    t = type(x)
    if t.__module__ != "builtins" and px() is not None and t.__repr__ is not object.__repr__ \
            and not isinstance(x, BaseException):
        return t.__repr__(x)
    return builtins.repr(x)


def sym_chr(x):
    p = px()
    if p is not None and isinstance(x, p.SymInt):
        import z3
        from symex import core
        e = core.CUR
        t = x.t
        if not e.decide(z3.simplify(z3.And(t >= 0, t <= 0x10FFFF))):
            raise ValueError("chr() arg not in range(0x110000)")
        return p.SymChar(t)
    return builtins.chr(x)


def sym_ord(x):
    p = px()
    if p is not None:
        if isinstance(x, p.SymChar):
            return p.SymInt(x.t)
        if isinstance(x, p.SymStr):
            if len(x) != 1:
                raise TypeError("ord() expected a character, but string of length %d found" % len(x))
            c = x.els[0]
            return p.SymInt(c.t) if isinstance(c, p.SymChar) else builtins.ord(c)
        if isinstance(x, p.SymEnum):
            return builtins.ord(x.conc())
    return builtins.ord(x)


def sym_range(*a):
    if any_sym(*a):
        a = [builtins.int(v) for v in a]
    return builtins.range(*a)


def sym_abs(x):
    return builtins.abs(x)


def sym_round(x, n=None):
    p = px()
    if p is not None and isinstance(x, p.SymInt):
        return x
    if n is None:
        return builtins.round(x)
    return builtins.round(x, builtins.int(n) if is_sym(n) else n)


def sym_len(x):
    return builtins.len(x)


def sym_hash(x):
    return builtins.hash(x)


def sym_sorted(*a, **k):
    return builtins.sorted(*a, **k)


def sym_min(*a, **k):
    return builtins.min(*a, **k)


def sym_max(*a, **k):
    return builtins.max(*a, **k)


def sym_bool(x=False):
    return True if x else False


def sym_isinstance(x, t):
    """isinstance that lets SymInt count as int, SymStr as str, SymFloat as float"""
    p = px()
    if p is not None and isinstance(x, p.SYM_TYPES):
        ts = t if isinstance(t, tuple) else (t,)
        for c in ts:
            if c is int and isinstance(x, (p.SymInt, p.SymBool, p.SymWord)):
                return True
            if c is bool and isinstance(x, p.SymBool):
                return True
            if c is float and isinstance(x, p.SymFloat):
                return True
            if c is str and isinstance(x, p.STRLIKE):
                return True
        return False
    return builtins.isinstance(x, t)


def sym_join(sep, items):
    items = list(items)
    p = px()
    if p is None or not (any_sym(sep) or any_sym(*items)):
        return sep.join(items)
    if not any(isinstance(x, (p.SymStr, p.SymChar)) for x in items + [sep]) \
            and all(isinstance(x, (builtins.str, p.SymEnum)) for x in items):
        acc = ""
        for k, it in enumerate(items):        # SymEnum + str stays a SymEnum (pointwise)
            if k:
                acc = acc + sep
            acc = acc + it
        return acc
    els = []
    se = p._els(sep if not isinstance(sep, p.SymEnum) else sep.conc())
    for k, it in enumerate(items):
        if k:
            els.extend(se)
        if isinstance(it, p.SymEnum):
            it = it.conc()
        ie = p._els(it)
        if ie is None:
            raise TypeError("sequence item %d: expected str instance" % k)
        els.extend(ie)
    return p.SymStr.mk(els)


def sym_fstr(*parts):
    vals = []
    for part in parts:
        if isinstance(part, tuple):
            v, conv, spec = part
            if conv == 114:
                v = sym_repr(v)
            elif conv == 115 or (conv == -1 and not spec):
                v = sym_str(v)
            else:
                v = format(v, spec or "")
            vals.append(v)
        else:
            vals.append(part)
    return sym_join("", vals)


def sym_strmeth(name, recv, *a):
    """receiver.method(*a) where the receiver may be a real str and an argument a proxy"""
    if type(recv) is builtins.str and a and any_sym(*a):
        p = px()
        if any(isinstance(x, p.STRLIKE) for x in a):
            recv = p.SymStr(list(recv))
            a = tuple(x.conc() if isinstance(x, p.SymEnum) else x for x in a)
    if recv is _re or recv is RE:
        return getattr(RE, name)(*a)
    return getattr(recv, name)(*a)


def sym_set(*a):
    from symex import nondet
    return nondet.make_set(*a)


class _Builtins:
    set = staticmethod(sym_set)
    strmeth = staticmethod(sym_strmeth)
    int = staticmethod(sym_int)
    float = staticmethod(sym_float)
    str = staticmethod(sym_str)
    repr = staticmethod(sym_repr)
    chr = staticmethod(sym_chr)
    ord = staticmethod(sym_ord)
    range = staticmethod(sym_range)
    abs = staticmethod(sym_abs)
    round = staticmethod(sym_round)
    len = staticmethod(sym_len)
    hash = staticmethod(sym_hash)
    sorted = staticmethod(sym_sorted)
    min = staticmethod(sym_min)
    max = staticmethod(sym_max)
    join = staticmethod(sym_join)
    fstr = staticmethod(sym_fstr)
    isinstance = staticmethod(sym_isinstance)


B = _Builtins()


# ---- module shims ---------------------------------------------------------------------------
class _Math:
    def __getattr__(self, name):
        return getattr(_math, name)

    @staticmethod
    def trunc(x):
        if is_sym(x):
            return x.__trunc__()
        return _math.trunc(x)

    @staticmethod
    def floor(x):
        p = px()
        if is_sym(x):
            if isinstance(x, p.SymInt):
                return x
            return x.__floor__()
        return _math.floor(x)

    @staticmethod
    def ceil(x):
        p = px()
        if is_sym(x):
            if isinstance(x, p.SymInt):
                return x
            return x.__ceil__()
        return _math.ceil(x)

    @staticmethod
    def pow(a, b):
        if any_sym(a, b):
            return _math.pow(builtins.float(a), builtins.float(b))
        return _math.pow(a, b)

    @staticmethod
    def isfinite(x):
        p = px()
        if is_sym(x) and isinstance(x, (p.SymInt, p.SymFloat, p.SymBool)):
            return True            # symbolic numbers are finite by construction (ints, integral decimals)
        return _math.isfinite(x)

    @staticmethod
    def isnan(x):
        p = px()
        if is_sym(x) and isinstance(x, (p.SymInt, p.SymFloat, p.SymBool)):
            return False
        return _math.isnan(x)

    @staticmethod
    def isinf(x):
        p = px()
        if is_sym(x) and isinstance(x, (p.SymInt, p.SymFloat, p.SymBool)):
            return False
        return _math.isinf(x)

    @staticmethod
    def fabs(a):
        return _math.fabs(builtins.float(a)) if is_sym(a) else _math.fabs(a)


def _c(x):
    """concretise for C-level callees (finite fork; Unsupported when too many values)"""
    p = px()
    if p is not None and isinstance(x, p.SYM_TYPES):
        if isinstance(x, (p.SymInt,)):
            return builtins.int(x)
        if isinstance(x, p.SymBool):
            return builtins.bool(x)
        if isinstance(x, p.SymFloat):
            return builtins.float(x)
        return builtins.str(x)
    return x


class _Re:
    def __getattr__(self, name):
        f = getattr(_re, name)
        if callable(f) and not isinstance(f, type):
            def g(*a, **k):
                a = [x._pat if isinstance(x, _Pat) else x for x in a]
                r = f(*[_c(x) for x in a], **{kk: _c(v) for kk, v in k.items()})
                if isinstance(r, _re.Pattern):
                    return _Pat(r)
                return r
            return g
        return f


class _Pat:
    """compiled pattern whose methods accept proxies (arguments are concretised by enumeration)"""

    def __init__(self, pat):
        self._pat = pat

    def __getattr__(self, name):
        f = getattr(self._pat, name)
        if callable(f):
            def g(*a, **k):
                return f(*[_c(x) for x in a], **{kk: _c(v) for kk, v in k.items()})
            return g
        return f


class _DatetimeClassShim:
    """datetime.datetime stand-in; hands out the real class unless proxies are involved."""

    def __getattr__(self, name):
        return getattr(_datetime.datetime, name)

    def __call__(self, *a, **k):
        if any_sym(*a) or any_sym(*k.values()):
            from symex.symdate import SymDateTime
            return SymDateTime.make(*a, **k)
        return _datetime.datetime(*a, **k)

    def __instancecheck__(self, inst):
        return isinstance(inst, _datetime.datetime)

    def fromtimestamp(self, *a, **k):
        from symex.symdate import wrap_dt
        return wrap_dt(_datetime.datetime.fromtimestamp(*a, **k))


class _Datetime:
    datetime = _DatetimeClassShim()

    def __getattr__(self, name):
        return getattr(_datetime, name)


MATH = _Math()
RE = _Re()
DATETIME = _Datetime()
