"""datetime stand-ins that keep field values symbolic (used by the datetime shim)."""
import datetime as _dt

from symex import shims

_DPM = [31, 28, 31, 30, 31, 30, 31, 31, 30, 31, 30, 31]


class DT(_dt.datetime):
    """real datetime whose replace() switches to SymDateTime when given proxies"""

    def replace(self, **kw):
        if shims.any_sym(*kw.values()):
            f = {k: getattr(self, k) for k in SymDateTime.FIELDS}
            f.update(kw)
            return SymDateTime.make(**f)
        return super().replace(**kw)


def wrap_dt(d):
    return DT(d.year, d.month, d.day, d.hour, d.minute, d.second, d.microsecond, d.tzinfo)


class SymDateTime:
    """duck-typed datetime with (possibly) symbolic fields, validated like the real class."""
    FIELDS = ("year", "month", "day", "hour", "minute", "second", "microsecond")

    def __init__(self, **f):
        for k in self.FIELDS:
            setattr(self, k, f.get(k, 0))

    @classmethod
    def make(cls, year, month, day, hour=0, minute=0, second=0, microsecond=0, tzinfo=None):
        def rng(v, lo, hi, what):
            if not (lo <= v):
                raise ValueError(what)
            if not (v <= hi):
                raise ValueError(what)
        rng(year, 1, 9999, "year %s is out of range" % (year,))
        rng(month, 1, 12, "month must be in 1..12")
        # days in month: forks on month (concrete per path afterwards)
        m = int(month)
        leap = (year % 4 == 0) and ((year % 100 != 0) or (year % 400 == 0))
        dim = 29 if (m == 2 and leap) else _DPM[m - 1]
        rng(day, 1, dim, "day is out of range for month")
        rng(hour, 0, 23, "hour must be in 0..23")
        rng(minute, 0, 59, "minute must be in 0..59")
        rng(second, 0, 59, "second must be in 0..59")
        rng(microsecond, 0, 999999, "microsecond must be in 0..999999")
        return cls(year=year, month=m, day=day, hour=hour, minute=minute, second=second,
                   microsecond=microsecond)

    def replace(self, **kw):
        f = {k: getattr(self, k) for k in self.FIELDS}
        f.update(kw)
        return SymDateTime.make(**f)

    def _key(self):
        return tuple(getattr(self, k) for k in self.FIELDS)

    def _conc(self):
        return _dt.datetime(*[int(v) for v in self._key()])

    def __eq__(self, o):
        if isinstance(o, _dt.datetime):
            o = SymDateTime(**{k: getattr(o, k) for k in self.FIELDS})
        if not isinstance(o, SymDateTime):
            return False
        import symex.proxies as p
        return p.s_and(*[a == b for a, b in zip(self._key(), o._key())])

    def __ne__(self, o):
        import symex.proxies as p
        return p.s_not(self.__eq__(o))

    def __lt__(self, o):
        return self._conc() < (o._conc() if isinstance(o, SymDateTime) else o)

    def __hash__(self):
        return hash(self._conc())

    def strftime(self, fmt):
        return self._conc().strftime(fmt)

    def __getattr__(self, name):
        if name.startswith("__"):
            raise AttributeError(name)
        return getattr(self._conc(), name)

    def __plain__(self):
        return self._conc().isoformat()

    def __repr__(self):
        return repr(self._conc())
