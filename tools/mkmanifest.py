#!/usr/bin/env python3
"""Regenerates /verif/MANIFEST.json from the table below (keeps it valid and current)."""
import json
import os

VERIF = os.path.dirname(os.path.dirname(os.path.abspath(__file__)))

TECH = "bounded symbolic execution of the real Python code with z3 (own re-execution engine: proxies + AST-rewriting loader); every counterexample replayed on the pristine interpreter"
NOTE = ("Trusted: z3 answers; the proxies/shims reproduce CPython semantics (every explored path's "
        "witness is re-run on the untouched ckl package under /venv/bin/python and compared; the "
        "repo's 854 tests pass through the transformed modules at the start of every run); the "
        "oracle in the harness expresses the property. Nothing outside the stated bounds is claimed.")

CHECKS = {
    "C01": ("DESIGN.md C01",
            "Source text as concrete prefix + up to 3 (thorough 4) unconstrained symbolic characters "
            "through the real parse_script; token streams of length <= 2 (thorough 3) with every "
            "token kind symbolic over the 137-kind alphabet; and at every position of 57 seed "
            "programs every deletion / insertion / substitution / truncation with a window of "
            "symbolic tokens, through the real parse(). Every feasible path must end in a node or "
            "a CklSyntaxError with message and position; budget exhaustion confirmed by the "
            "pristine run is reported as non-termination. Every seed program is also placed inside the list / comprehension positions whose syntax-error message renders the parsed node (node rendering must not raise); string-literal tokens whose content is punctuation, an operator or a keyword are part of the token alphabet. Pattern and literal pool includes incompatible regex flags and literals beyond the host's int <-> str digit limit."),
    "C15": ("DESIGN.md C15",
            "All index arguments are symbolic integers (quick [-12,12], thorough [-48,48]) and the "
            "searched sequences are symbolic over a 3-symbol alphabet; sequence lengths 0..5 "
            "(thorough 0..7). Every feasible path of NodeDeref/NodeDerefAssign/NodeDerefSlice/"
            "substr/sublist/find/find_last/insert_at/delete_at is executed and compared with the "
            "sequence model by solver obligations; exhaustive within the bounds. Lists in the positional operations have symbolic, possibly equal elements. The element taken out by s[i] is changed in place and the string read again. find_last with an explicit start."),
    "C17": ("DESIGN.md C17",
            "Per year cell: month/day symbolic (date->number) and the day number symbolic over the "
            "year's interval (number->date), so every calendar day of each explored year is covered "
            "by ~12 path classes; quick = boundary years + 24 stride years, thorough = all 8100 "
            "years. Date arithmetic with symbolic day and offset in [-800,800]. Oracle: "
            "datetime.date.toordinal. Time of day: quick = concrete sweep of all 86400 seconds on a ladder of days (outside the solver claim); thorough = one QF_BVFP obligation per day (3 days) obtained by tracing the real to_oa_date/to_date on floating point terms, decided by cvc5. The same conversions through the language (date(decimal(x)), date(int(x)), int / decimal of a date) on the boundary days at 144 times of day."),
}

CHECKS["C20"] = ("DESIGN.md C20",
    "For each of 56 seed programs and every token boundary (also before the first and after the "
    "last token) the separator is a symbolic layout string (whitespace, CR, LF, # comment) of "
    "length <= 2 (thorough 3); every token's line must equal 1 + the number of LF before its first "
    "character, where the count is a z3 term over the separator characters. Planted faults "
    "(undefined name, error statement, division by zero, type error, syntax fault, fault inside a "
    "called function, fault inside a user module) behind symbolic layout: error positions, stack "
    "trace entry and module name are checked the same way. 24 templates put the faulty token behind a symbolic gap inside an expression (operands, call arguments, pipeline/member targets, comprehension sources). Two module files with the same text; the stack trace of a later error in another file. Faults behind multi-line string literals with symbolic content, inside functions called back by natives, and in module files that begin with layout.")

CHECKS["C14"] = ("DESIGN.md C14",
    "Every token boundary of 56 seed programs gets a symbolic layout separator (length <= 2, "
    "thorough 3: whitespace, CR, LF, # comment) and the real lexer's (type, value) sequence must "
    "equal the canonical one for all of them; trailing layout and unterminated comments at end of "
    "input; int literals as decimal/hex/HEX/binary/underscored numerals with symbolic digits must "
    "evaluate to the value of the digits; strings single-quoted, double-quoted and \\xHH-escaped "
    "with symbolic characters must lex to the same token; != vs <>, trailing semicolons and "
    "redundant parentheses on 12 expression seeds evaluated over symbolic int operands. Tight renderings (literal/identifier/bracket directly followed by each operator) against the spaced rendering. Optional semicolons after statements, catch handlers and before finally / end. Parenthesised statements and loop / comprehension sources; a run of underscores at a symbolic place of decimal / hex / binary literals.")

CHECKS["C02"] = ("DESIGN.md C02",
    "Every ordered pair (thorough: triple) of the 14 binary operators in `u a op1 u b op2 u c`, every "
    "unary placement and both parenthesisations, parsed by the real parser and evaluated by the "
    "real evaluator over symbolic operand values (ints in [-10^6,10^6], symbolic booleans, NULL) "
    "and compared for all values with a reference evaluator written from the property's precedence "
    "table; add/sub/mul/div/mod natives over unbounded symbolic ints against the defining "
    "equations of exact arithmetic; int/decimal/NULL kind matrix; `x is not P` against "
    "`not (x is P)` for every identifier of the token alphabet and a value pool of every kind. Re-evaluation cells run the same parsed chain twice with independent symbolic operands (no state may be kept in the tree). All seven relational operators and all chains of two of them over int / decimal / int-backed decimal operands (1 versus 1.0, 2 versus 2.5) against numeric order. Membership (in / not in / is in / is not in) over lists, sets, map keys and strings with needles of every scalar kind; predicate words are read off the parser's source.")

CHECKS["C07"] = ("DESIGN.md C07",
    "Pairs and triples of same-kind values with symbolic payloads (unbounded ints, integral "
    "decimals up to 2^53 mixed with ints, strings of length <= 2 (thorough 3) over unconstrained "
    "characters, symbolic booleans, dates, int lists) through <, >, ==, !=, <=, >=, compare, min, "
    "max of the real interpreter against the defined order, with the strict-order laws as solver "
    "obligations; sorted() on lists of <= 4 (thorough 6) [key, tag] pairs with symbolic keys "
    "(permutation, ordered, stable; default/key/cmp); set and map-key enumeration order. sorted() over equal-but-distinguishable elements (1 vs 1.0) with separating keys; sets/map keys mixing ints and decimals. Dates inside one calendar second and before the year 1000; every enumeration form of a set / map before and after its elements change. Ints against decimals with a fractional part of both signs.")

CHECKS["C06"] = ("DESIGN.md C06",
    "All 64 kind pairs and 13 kind triples of data values with symbolic payloads (unbounded ints, "
    "integral decimals up to 2^53, strings <= 2, booleans, lists of mixed int/decimal) through "
    "==, !=, equals, not_equals of the real interpreter and Value.__eq__: reflexive, symmetric, "
    "transitive, numeric across int/decimal, never equal across kinds. Finite-domain part (28-value "
    "pool incl. 2^53, 2^53+1, 2^63, 2^64 and their decimal twins, nested containers): hash "
    "consistency on every pair; sets/maps of 3 (thorough 4) pool elements in both insertion orders: "
    "no two equal elements, cardinality, membership, lookup, removal and container equality agree "
    "for every equal representative. The finite-domain part is an exhaustive enumeration that the "
    "solver merely drives. Equal containers are also used as elements/keys of other containers and their hashes compared. A list that has been hashed is changed in place (index assignment, nested append, ...) and used as element / key again. Dates inside one second; maps of equal size with different keys and NULL values; list membership / find for every equal representative.")

CHECKS["C08"] = ("DESIGN.md C08",
    "Strings of length <= 3 (thorough 5) over unconstrained characters (hashed positions: a "
    "13-character adversarial alphabet), ints given by up to 12 symbolic digits with sign, "
    "13 nesting shapes to depth 3, alone and inside list/set/map-key/map-value/nested shapes: "
    "real __repr__ -> real Lexer -> parse -> evaluate must return an equal value of the same type "
    "that renders to the same text; sets/maps of distinct symbolic ints render identically in "
    "every insertion order. Decimal rendering (repr(float) is C code) is a concrete ladder and "
    "outside the solver claim. Operation sequences (3, thorough 4 steps) on one set/map object are rendered again and compared with a freshly built equal value. Pattern values over an alphabet with CR, LF, TAB, quotes and #. Values of different kinds (containers among them, also built in unsorted order) as sibling elements / keys under every construction order.")

CHECKS["C18"] = ("DESIGN.md C18",
    "s (<= 3, thorough 4), t, a, b (<= 2) as strings of unconstrained symbolic characters through "
    "contains/find/in/starts_with/ends_with/length/+/substr/find_last, replace (against a "
    "left-to-right non-overlapping reference), reverse, upper/lower/trim idempotence, chr/ord over "
    "all scalar values, join/unlines/unwords/q, s() with every format suffix and sprintf with "
    "symbolic surrounding text and values. split/escape_pattern/join inverse goes through the C re "
    "module and is a finite-domain enumeration (13 separators incl. every regex metacharacter, "
    "subjects over separator characters and 'a' up to length 3/4). Adjacent placeholders with possibly empty values; join with empty parts. sprintf on six templates (two-digit placeholder indices, text that only looks like a placeholder start).")

CHECKS["C19"] = ("DESIGN.md C19",
    "sum/prod/reduce/reverse/zip/enumerate/pairs/chunks/flatten/filter/map_list/range/interval/"
    "min/max on lists of <= 4 (thorough 5) unbounded symbolic ints against textbook definitions; "
    "median_low/median_high/median(odd)/min/max against the counting characterisation of order "
    "statistics (permutation invariance follows); pow(x, y) for unbounded symbolic x and y in 0..12; "
    "abs/sign unbounded; the eight 32-bit bitwise natives with symbolic 32-bit words as native z3 "
    "bit-vectors and every shift count 0..40. Finite-domain parts (solver drives an exhaustive "
    "enumeration): set algebra over a 6-value mixed domain, unique, mean/median(even) under all "
    "permutations, gcd/lcm on [-20,20]^2, pow witnesses beyond 2^53. Set algebra on a set that has been enumerated and mutated (sequences of 3, thorough 4 operations). grouped over ints, decimals and strings with duplicates and 1 versus 1.0. Ranges with steps -3, -2, -1, 3.")

CHECKS["C13"] = ("DESIGN.md C13",
    "Every function of the (secure, legacy) base environment (219 natives and module functions) with "
    "every tuple of 14 argument kinds for arity <= 2 (thorough 3), the same object passed twice, "
    "and 82 syntactic operator/index/slice/iteration/spread/destructuring/assignment forms: int "
    "payloads symbolic in [-9, 9] (edge values are solutions of the code's branch conditions), other "
    "kinds from small pools selected by symbolic indices. Every feasible path must end in a value "
    "or a CklRuntimeError carrying a language value; other exception classes and confirmed budget "
    "exhaustion are violations. String pools include placeholder texts ({x#12}) so that interpolation cannot loop. Quick tier: four arity-3 kind triples for every function with three parameters. Loop exits in every iteration form; malformed program texts as arguments (a syntax error raised during evaluation is a violation).")

CHECKS["C16"] = ("DESIGN.md C16",
    "Argument preservation: C13's enumeration of functions, forms and kind tuples (symbolic int "
    "payloads) with the rendered form of every argument compared before and after each call on "
    "every path; documented mutators may change their first argument only. Alias graphs: programs "
    "of 3 (thorough 4) operations chosen by symbolic selectors from 30 templates (aliasing, copying, "
    "mutators through variables/parameters/closures/nested containers/map values/object members, "
    "non-mutating library calls) read back and compared with a reference heap model; 18 "
    "result-independence programs. The quantification over functions/kinds/operation sequences is "
    "an enumeration driven by the solver; the solver's own contribution is path coverage inside "
    "each call. Prototype chains: member assignment changes exactly the targeted object. Functions that draw random numbers run under 4 seeds with lists in which a draw repeats; literals (defaults, bodies, comprehension items) are fresh values per evaluation. Positional mutators (insert_at, delete_at, element assignment) with a symbolic index in [-9,9] (thorough [-24,24]) through an alias, read back through every alias and an equal but distinct list.")

CHECKS["C05"] = ("DESIGN.md C05",
    "12 (thorough 15) template shapes of do/catch v/catch all/finally nests (depth 2, thorough 3) at "
    "top level, in functions, in loops, nested in bodies/handlers/finally parts, with a fault point "
    "between all statements. Symbolic: which fault point fires first and second, the exit kind of "
    "each (error value, undefined name, division by zero, return, break, continue), error values of "
    "several kinds, catch values, return value. The program text runs through the real parser and "
    "interpreter; result / escaping error value and the event log are compared for all values with "
    "a reference interpreter built on Python exceptions and try/finally. Control exits inside finally parts must not swallow an error in flight; errors unwind through calls with short and long arguments. Finally parts that call a function with its own exits while an exit is pending; functions whose whole body is a block holding a single return. Int errors against decimal catch values; runtime errors that originate from host-level exceptions, raised directly in the enclosing block.")

CHECKS["C04"] = ("DESIGN.md C04",
    "10 (thorough 12) template shapes of for/while nests (depth 2, thorough 3), loops in functions, "
    "functions in loops, if/elif/else chains, with a fault point at every statement position whose "
    "kind (break/continue/return/error) is symbolic, symbolic element values, loop bounds and "
    "conditions; compared for all values with a reference interpreter (Python loops). Iteration "
    "order of lists, sets, map keys/values/entries/destructured pairs and strings over symbolic "
    "collections. 16 comprehension forms x iterable kinds against their explicit-loop expansion, both "
    "run by the real interpreter on the same symbolic collection. Map loops carry fault points too; bare `return;` yields NULL. A return travelling out through a finally part that calls a function with its own early return; loops over a set / map before and after its elements change. Loops over the characters of a string with every exit kind.")

CHECKS["C03"] = ("DESIGN.md C03",
    "6 scoping template programs (shadowing over 4 scope levels with run-time selectors for 'this "
    "level defines / assigns the name', closures called from a scope binding the same name, "
    "counters, curried/composed functions, bounded recursion, assignment before/after capture, "
    "fresh parameter bindings) with every stored value a distinct symbolic int, against explicit "
    "environment chains; Args.setArgs for 0..3 parameters, optional rest parameter and up to 3 "
    "(thorough 4) arguments each positional or named (p0/p1/p2/unknown) against the binding model; "
    "27 call forms (named, defaults, rest, list/map spread, pipeline, method calls with prototype "
    "chains) with symbolic argument values. Defaults are exercised across several calls (a fresh value per call). The same identifier occurrence is evaluated before and after a nearer definition appears, through factories with / without a local and through recursion. Spread arguments followed by named arguments in every call form. Destructuring assignment with targets at symbolically chosen scope levels in both orders.")

CHECKS["C12"] = ("DESIGN.md C12",
    "98 driver programs send sets of strings through every iteration/conversion/spread/destructuring/"
    "rendering path and the collection library, 36 do the same for maps. The iteration order of every "
    "host set is a symbolic permutation (NondetSet injected through the loader), the insertion order "
    "of maps a symbolic permutation; result, output and error must equal those of the canonical "
    "order for every permutation (sizes 3, thorough 4). Counterexamples are replayed by running the "
    "program in fresh processes under up to 32 PYTHONHASHSEEDs until two outputs differ. The model "
    "(any order) over-approximates CPython's actual orders. Sets of mixed scalars, sorted() with ties under key/cmp, and sorted-order expectations for spread/destructuring. Maps with non-string keys (passed positionally when spread into a call) under every construction order. Operators with a set operand; comprehensions and loops whose result depends on the enumeration order of a set source.")

CHECKS["C10"] = ("DESIGN.md C10",
    "Histories of 3 (thorough 4) commands over a 33-command alphabet (define, assign, read, call, "
    "failing expressions, syntax errors, require of good/missing/broken/syntactically broken/circular/"
    "nested-failing user modules on a real scratch module path, loop aborted by an error), every "
    "command chosen by a symbolic selector, issued to one or two interleaved fresh Interpreter "
    "instances; each call's result or error is compared with a reference session model, failed "
    "commands are repeated and must fail identically, the module load stack must be empty between "
    "calls. Plus the one-step check per require outcome (stack restored, module cached iff its body "
    "completed). This is a finite enumeration driven by the solver; the inductive step for the module "
    "stack is what extends to histories of any length. Class definitions, a failing redefinition and their observers are part of the command alphabet. Functions without parameters that make local definitions (one returning, one failing) and a read of their local are part of the alphabet.")

CHECKS["C11"] = ("DESIGN.md C11",
    "Unit level: NodeRequire.evaluate on a pre-seeded module cache whose symbol table is up to 3 "
    "(thorough 4) names drawn by symbolic selectors from a pool (public, _private, __dunder, nested "
    "module object) under every import form (qualified / as / unqualified / import list with symbolic "
    "membership and aliases): the importer's scope must change by exactly the requested names, no "
    "underscore name is exported. API level: importer programs of 2 (thorough 3) import statements "
    "chosen by symbolic selectors over 12 forms against real user modules (chain, diamond, 2-cycle, "
    "self-require, private/public mix, shadowing): each body runs at most once, all importers share "
    "one instance, module code cannot see importer variables, cycles are errors, private names are "
    "unreachable. Finite-domain enumeration driven by the solver. A module with public mutable data is required again after its state changed or after an importer wrote to its module object. A module body starts at most once per require (cycles closing on the outermost module). The unit part's symbol pool also holds a plain object and a list as public values.")

CHECKS["C09"] = ("DESIGN.md C09",
    "bind_native(name[, alias]) through the interpreter with the native name symbolic over all 122 "
    "names the binder knows plus unknown spellings, 5 alias spellings, and symbolic secure/legacy "
    "constructor flags: in every secure path no OS-touching function value may be reachable from the "
    "environments afterwards, `run` stays unbound, the flag stays TRUE. OS-touching is computed by an "
    "AST scan of each built-in class (open/subprocess/shutil/FileInput/FileOutput/os.* outside an "
    "allow list/interpreter access), not read from the secure attribute. 25 syntactic ways of "
    "defining or assigning a name x 3 identifiers (incl. checkerlang_secure_mode): afterwards the "
    "binder still refuses 12 OS natives and module code still refuses to read files. The reachable-"
    "value closure over all bundled modules is a concrete graph walk; that no OS call happens at run "
    "time is not a solver question. Level claimed is modest. Sequences of a non-secure and a secure interpreter in one fresh process (shared state) are checked the same way. Compound assignments to the flag (with NULL and other operands, in eval / functions / loops).")

NA = {}


def main():
    props = [json.loads(l)["id"] for l in open(os.path.join(VERIF, "properties.jsonl"))]
    checks = []
    for pid in props:
        if pid not in CHECKS:
            continue
        ref, text = CHECKS[pid]
        checks.append({
            "property_id": pid,
            "quick_cmd": "./check %s --tier quick" % pid,
            "thorough_cmd": "./check %s --tier thorough" % pid,
            "evidence_file": "/verif/evidence/%s.json" % pid,
            "replay_cmd_template": "./check %s --replay {path}" % pid,
            "engine": "symex",
            "level_claimed": {"category": "model_checking", "text": text, "design_ref": ref},
            "level_note": NOTE,
            "technique": TECH,
        })
    na = [{"property_id": p, "reason": NA.get(p, "check not built yet (work in progress)")}
          for p in props if p not in CHECKS]
    m = {
        "version": 1,
        "setup_cmd": "./setup.sh",
        "hooks": {"guard": "CKL_VERIF", "enable": "no hooks: the checks load /repo/src through an "
                  "AST-rewriting import loader at run time",
                  "baseline_off_cmd": "cd /repo && /venv/bin/python -m pytest -q -p no:cacheprovider",
                  "source_commits": [], "add_only": True},
        "engines": [{"name": "symex", "path": "/verif/symex",
                     "serves_properties": [c["property_id"] for c in checks],
                     "kind_free_text": "re-execution symbolic executor on z3 (python3-vt), pristine "
                                       "oracle child under /venv/bin/python"}],
        "checks": checks,
        "not_applicable": na,
        "notes": "exit codes: 0 held within bounds; 1 replay-confirmed VIOLATION; 3 engine problem / "
                 "inconclusive (never reported as success or violation)",
    }
    json.dump(m, open(os.path.join(VERIF, "MANIFEST.json"), "w"), indent=1)
    print("checks:", [c["property_id"] for c in checks])


if __name__ == "__main__":
    main()
