#!/usr/bin/env python3
"""Development helper: write seeded/<dir>/meta.json from meta.txt + result.json (+ a first-run note).

usage: tools/mkmeta.py <seed-dir> <first-run note>"""
import json
import os
import sys

ORIGIN = {
    "": "independent sub-agent given only the property text and a scratch worktree (round 1)",
    "_r2": "independent sub-agent given only the property text, a scratch worktree and a one-line description of the "
           "round-1 idea to avoid (round 2: asked for multi-step / cooperating-site changes)",
    "_r3": "independent sub-agent given only the property text, a scratch worktree and one-line descriptions of the "
           "round-1 and round-2 ideas to avoid (round 3: asked for state kept between steps, rarely used forms, "
           "optimisations with a forgotten case)",
    "_r4": "independent sub-agent given only the property text, a scratch worktree and one-line descriptions of the "
           "three earlier ideas to avoid (round 4)",
    "_r5": "independent sub-agent given only the property text, a scratch worktree and one-line descriptions of the "
           "four earlier ideas to avoid (round 5: asked for boundary conditions, forgotten cases, wrong operators; no "
           "stale caches or shared mutable objects)",
    "_r6": "independent sub-agent given only the property text, a scratch worktree and one-line descriptions of the "
           "five earlier ideas to avoid (round 6: asked to list the property's clauses and attack an untouched one)",
    "_r7": "independent sub-agent given only the property text, a scratch worktree and one-line descriptions of the "
           "six earlier ideas to avoid (round 7, same protocol as round 6)",
    "_r8": "independent sub-agent given only the property text, a scratch worktree and one-line descriptions of all "
           "earlier ideas for that property to avoid (round 8, same protocol as round 6; the ten properties not "
           "seeded in round 7)",
}


def main():
    d = os.path.abspath(sys.argv[1])
    note = sys.argv[2]
    name = os.path.basename(d)
    prop, suffix = name[:3], name[3:]
    res = json.load(open(os.path.join(d, "result.json")))
    caught = [c for c, r in res.get("checks", {}).items() if r["rc"] == 1 and r["violations"] > 0]
    meta = {
        "property": prop,
        "origin": ORIGIN.get(suffix, ORIGIN[""]),
        "needs_to_manifest": open(os.path.join(d, "meta.txt")).read().strip(),
        "validated": {
            "demo_passes_without_patch": res.get("demo_without_patch_rc") == 0,
            "demo_fails_with_patch": res.get("demo_with_patch_rc") != 0,
            "repo_tests_with_patch": res.get("tests_with_patch"),
            "how": "tools/seedtest.py: fresh scratch worktree of /repo HEAD under /tmp (removed afterwards)",
        },
        "check_result_on_patched_repo": res.get("checks", {}),
        "caught_by": caught,
        "first_run": note,
        "what_i_ran": ("tools/seedtest.py --wt seeded/%s %s (quick check pointed at the patched scratch worktree via VERIF_REPO; "
                       "/repo untouched)" % (name, prop)) if res.get("checks_ran_against") else
                      "tools/seedtest.py seeded/%s %s (applies the patch to /repo, runs the quick check, reverts)" % (name, prop),
    }
    json.dump(meta, open(os.path.join(d, "meta.json"), "w"), indent=1)
    print(name, "caught_by", caught)


if __name__ == "__main__":
    main()
