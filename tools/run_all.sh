#!/bin/sh
# development helper: run every check of a tier, print rc and wall time
TIER=${1:-quick}
cd "$(dirname "$0")/.."
for p in C01 C02 C03 C04 C05 C06 C07 C08 C09 C10 C11 C12 C13 C14 C15 C16 C17 C18 C19 C20; do
  s=$(date +%s)
  timeout ${2:-3600} ./check $p --tier $TIER > /tmp/run_${TIER}_$p.log 2>&1
  rc=$?
  e=$(date +%s)
  echo "$p tier=$TIER rc=$rc wall=$((e-s))s $(tail -1 /tmp/run_${TIER}_$p.log | cut -c1-160)"
done
