#!/bin/sh
# development helper: re-run every seeded change against its check (patches /repo temporarily!)
cd "$(dirname "$0")/.."
for d in seeded/C*; do
  id=$(basename $d | cut -c1-3)
  if ! git -C /repo apply --check $(pwd)/$d/patch.diff 2>/dev/null; then echo "$d: patch no longer applies (repo changed since)"; continue; fi
  timeout 1500 python3 tools/seedtest.py $d $id 2>&1 | grep "check " | cut -c1-200 | sed "s|^|$d: |"
done
git -C /repo status --short | wc -l
