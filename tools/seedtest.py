#!/usr/bin/env python3
"""Development helper (not a registered check): validate a seeded change and run checks on it.

usage: tools/seedtest.py <seed-dir> [CHECK_ID ...]        e.g. tools/seedtest.py seeded/C07 C07
  1. in a fresh scratch worktree of /repo (under /tmp, removed afterwards): the demo passes
     without the patch; with the patch the repo's tests still pass and the demo fails;
  2. apply the patch to /repo, run the named checks (quick tier), revert /repo.
Prints one summary line per check and writes <seed-dir>/result.json."""
import json
import os
import subprocess
import sys
import tempfile

VERIF = os.path.dirname(os.path.dirname(os.path.abspath(__file__)))


def sh(cmd, cwd=None, env=None, timeout=1800):
    p = subprocess.run(cmd, shell=True, cwd=cwd, env=env, capture_output=True, text=True, timeout=timeout)
    return p.returncode, p.stdout + p.stderr


def main():
    import signal
    signal.signal(signal.SIGTERM, lambda *a: sys.exit(143))      # let finally blocks revert /repo
    args = [a for a in sys.argv[1:] if a != "--wt"]
    in_worktree = "--wt" in sys.argv[1:]     # run the checks against the patched scratch worktree (VERIF_REPO)
    seed = os.path.abspath(args[0])          # instead of patching /repo (used while other jobs read /repo)
    checks = args[1:]
    patch = os.path.join(seed, "patch.diff")
    demo = os.path.join(seed, "demo.py")
    res = {"seed": os.path.basename(seed)}
    wt = tempfile.mkdtemp(prefix="seedwt_")
    os.rmdir(wt)
    rc, out = sh("git -C /repo worktree add -q --detach %s HEAD" % wt)
    assert rc == 0, out
    try:
        env = dict(os.environ, PYTHONPATH=os.path.join(wt, "src"))
        rc0, o0 = sh("/venv/bin/python %s" % demo, cwd=wt, env=env, timeout=300)
        res["demo_without_patch_rc"] = rc0
        rc, out = sh("git apply %s" % patch, cwd=wt)
        res["patch_applies"] = rc == 0
        if rc != 0:
            print("PATCH DOES NOT APPLY", out)
        rc1, o1 = sh("/venv/bin/python %s" % demo, cwd=wt, env=env, timeout=300)
        res["demo_with_patch_rc"] = rc1
        res["demo_output"] = o1[-600:]
        rct, ot = sh("/venv/bin/python -m pytest -q -p no:cacheprovider tests", cwd=wt, env=env, timeout=900)
        res["tests_with_patch"] = ot.strip().splitlines()[-1] if ot.strip() else ""
        res["tests_pass"] = rct == 0
        if in_worktree and checks:
            res["checks"] = {}
            res["checks_ran_against"] = "scratch worktree with the patch applied (VERIF_REPO), /repo untouched"
            for c in checks:
                try:
                    rc, out = sh("timeout 1500 ./check %s --tier quick" % c, cwd=VERIF, timeout=1600,
                                 env=dict(os.environ, VERIF_REPO=wt))
                except subprocess.TimeoutExpired:
                    rc, out = 124, ""
                viol = [l for l in out.splitlines() if l.startswith("VIOLATION")]
                keys = [l.strip()[:300] for l in out.splitlines() if l.strip().startswith("key=")]
                eng = [l[:300] for l in out.splitlines() if l.startswith("ENGINE")]
                res["checks"][c] = {"rc": rc, "violations": len(viol), "first_keys": keys[:5], "engine": eng[:3]}
                print("  check %s on patched worktree: rc=%d violations=%d %s %s" % (c, rc, len(viol), keys[:2], eng[:1]))
    finally:
        sh("git -C /repo worktree remove --force %s" % wt)
    ok = res["demo_without_patch_rc"] == 0 and res["demo_with_patch_rc"] != 0 and res["tests_pass"]
    res["valid_seed"] = ok
    print("seed %s: demo without patch rc=%s, with patch rc=%s, tests: %s => %s" % (
        res["seed"], res["demo_without_patch_rc"], res["demo_with_patch_rc"], res["tests_with_patch"],
        "VALID" if ok else "INVALID"))
    if in_worktree:
        json.dump(res, open(os.path.join(seed, "result.json"), "w"), indent=1)
        return
    res["checks"] = {}
    if checks:
        rc, out = sh("git -C /repo status --porcelain")
        assert out.strip() == "", "repo not clean: " + out
        rc, out = sh("git -C /repo apply %s" % patch)
        assert rc == 0, out
        try:
            for c in checks:
                try:
                    rc, out = sh("timeout 1500 ./check %s --tier quick" % c, cwd=VERIF, timeout=1600)
                except subprocess.TimeoutExpired:
                    rc, out = 124, ""
                viol = [l for l in out.splitlines() if l.startswith("VIOLATION")]
                keys = [l.strip()[:300] for l in out.splitlines() if l.strip().startswith("key=")]
                eng = [l[:300] for l in out.splitlines() if l.startswith("ENGINE")]
                res["checks"][c] = {"rc": rc, "violations": len(viol), "first_keys": keys[:5], "engine": eng[:3]}
                print("  check %s on patched repo: rc=%d violations=%d %s %s" % (c, rc, len(viol), keys[:2], eng[:1]))
        finally:
            sh("git -C /repo checkout -- .")
            rc, out = sh("git -C /repo status --porcelain")
            assert out.strip() == "", "repo not clean after revert: " + out
    json.dump(res, open(os.path.join(seed, "result.json"), "w"), indent=1)


if __name__ == "__main__":
    main()
