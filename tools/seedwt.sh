#!/bin/sh
# development helper: scratch worktree of /repo with one seeded patch applied, for VERIF_REPO=<dir>
# usage: tools/seedwt.sh <seed-dir>   -> prints the worktree path (remove: git -C /repo worktree remove --force <dir>)
set -e
seed=$(readlink -f "$1")
wt=/tmp/swt_$(basename "$seed")
git -C /repo worktree remove --force "$wt" 2>/dev/null || true
git -C /repo worktree add -q --detach "$wt" HEAD
git -C "$wt" apply "$seed/patch.diff"
echo "$wt"
