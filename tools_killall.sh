#!/bin/sh
# kill leftover check workers / oracle children (development helper)
for pid in $(pgrep -f "symex\.(driver|oracle)"); do
  [ "$pid" != "$$" ] && kill "$pid" 2>/dev/null
done
sleep 0.5
pgrep -fc "symex\.(driver|oracle)"
